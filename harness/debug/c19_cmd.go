package PKG

// C19: the stop depth each debugger command asks for.

import (
	"github.com/cosmos72/gomacro/fast"
)

func VH_C19_commands() {
	cd := vhInt("call depth")
	vhAssume(cd >= 0 && cd < 1<<62)
	d := &Debugger{env: &fast.Env{CallDepth: cd}}
	s := d.cmdStep("")
	vhAssert(s.Depth == fast.MaxInt && s.Panic == nil, "step: stop at any depth")
	n := d.cmdNext("")
	vhAssert(n.Depth == cd+1 && n.Panic == nil, "next: stop at depth <= current")
	f := d.cmdFinish("")
	vhAssert(f.Depth == cd && f.Panic == nil, "finish: stop at depth < current")
	c := d.cmdContinue("")
	vhAssert(c.Depth == 0 && c.Panic == nil, "continue: never stop")
	vhReach("end")
}

func VH_C19_lookup() {
	names := []string{"step", "next", "finish", "continue"}
	k := vhPick("command", 4)
	name := names[k]
	n := 1 + vhPick("prefix length", 3)
	cmd, ok := cmds.Lookup(name[:n])
	vhAssert(ok && cmd.Name == name, "a prefix of step/next/finish/continue selects that command")
	cd := vhInt("call depth")
	vhAssume(cd >= 0 && cd < 1<<62)
	d := &Debugger{env: &fast.Env{CallDepth: cd}}
	op := cmd.Func(d, "")
	want := []int{fast.MaxInt, cd + 1, cd, 0}
	vhAssert(op.Depth == want[k] && op.Panic == nil, "the selected command asks for its documented stop depth")
	vhReach("end")
}
