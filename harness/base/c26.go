package PKG

// C26: the multiline reader never ends a chunk inside a literal, comment or open bracket, and returns the bytes it read.
// Each harness feeds one line  prefix ++ [b1 (, b2)] ++ suffix ++ "\n"  where the prefix and suffix are concrete (they
// put the reader into every lexical mode) and b1, b2 range over all 256 byte values; a second read returns EOF,
// so err == nil means "the chunk ended after this line".  The oracle is a reference lexical automaton.

import (
	"io"
)

type vhOneLine struct {
	line []byte
	used bool
}

func (r *vhOneLine) Read(prompt string) ([]byte, error) {
	if r.used {
		return nil, io.EOF
	}
	r.used = true
	return r.line, nil
}

const (
	vhCode = iota
	vhRuneS
	vhRuneEsc
	vhStrS
	vhStrEscS
	vhRaw
	vhSlash
	vhLineC
	vhBlockC
	vhBlockStar
	vhTilde
	vhHash
)

// reference lexer: state after the bytes, bracket depth, offset of the first token (-1: none), whether a control
// byte occurred inside a rune/string literal (the reader reports that as an error), and the class of the last token
type vhLexResult struct {
	state, depth, first int
	badLiteral          bool
	lastOp              bool // the last token byte is an operator/comma that continues the statement on the next line
	lastPlusMinus       int  // length of the trailing run of '+' (positive) or '-' (negative) ending the code
}

func vhIsContOp(b byte) bool {
	switch b {
	case '!', '%', '&', '*', ',', '<', '=', '>', '^', '|':
		return true
	}
	return false
}

func vhLex(src []byte) vhLexResult {
	r := vhLexResult{state: vhCode, first: -1}
	tokenAt := func(i int) {
		if r.first < 0 {
			r.first = i
		}
	}
	for i := 0; i < len(src); i++ {
		b := src[i]
		switch r.state {
		case vhCode:
			switch {
			case b == '(' || b == '[' || b == '{':
				r.depth++
				tokenAt(i)
				r.lastOp, r.lastPlusMinus = false, 0
			case b == ')' || b == ']' || b == '}':
				r.depth--
				tokenAt(i)
				r.lastOp, r.lastPlusMinus = false, 0
			case b == '\'':
				r.state = vhRuneS
				tokenAt(i)
				r.lastOp, r.lastPlusMinus = false, 0
			case b == '"':
				r.state = vhStrS
				tokenAt(i)
				r.lastOp, r.lastPlusMinus = false, 0
			case b == '`':
				r.state = vhRaw
				tokenAt(i)
				r.lastOp, r.lastPlusMinus = false, 0
			case b == '/':
				r.state = vhSlash
			case b == '#':
				r.state = vhHash
			case b == '~':
				r.state = vhTilde
				tokenAt(i)
				r.lastOp, r.lastPlusMinus = false, 0
			case b == '+':
				tokenAt(i)
				r.lastOp = false
				if r.lastPlusMinus > 0 {
					r.lastPlusMinus++
				} else {
					r.lastPlusMinus = 1
				}
			case b == '-':
				tokenAt(i)
				r.lastOp = false
				if r.lastPlusMinus < 0 {
					r.lastPlusMinus--
				} else {
					r.lastPlusMinus = -1
				}
			case b <= ' ':
				// white space ends a run of + or -: an odd run is a pending binary (or unary) operator
				if r.lastPlusMinus%2 != 0 {
					r.lastOp = true
				}
				r.lastPlusMinus = 0
			default:
				tokenAt(i)
				r.lastOp, r.lastPlusMinus = vhIsContOp(b), 0
			}
		case vhRuneS:
			if b == '\\' {
				r.state = vhRuneEsc
			} else if b == '\'' {
				r.state = vhCode
			} else if b < ' ' {
				r.badLiteral = true
				return r
			}
		case vhRuneEsc:
			if b < ' ' {
				r.badLiteral = true
				return r
			}
			r.state = vhRuneS
		case vhStrS:
			if b == '\\' {
				r.state = vhStrEscS
			} else if b == '"' {
				r.state = vhCode
			} else if b < ' ' {
				r.badLiteral = true
				return r
			}
		case vhStrEscS:
			if b < ' ' {
				r.badLiteral = true
				return r
			}
			r.state = vhStrS
		case vhRaw:
			if b == '`' {
				r.state = vhCode
			}
		case vhSlash:
			if b == '/' {
				r.state = vhLineC
			} else if b == '*' {
				r.state = vhBlockC
			} else {
				// the '/' was a division operator: a token; reprocess b as code
				tokenAt(i - 1)
				r.lastOp, r.lastPlusMinus = true, 0
				r.state = vhCode
				i--
			}
		case vhLineC:
			if b == '\n' {
				r.state = vhCode
			}
		case vhBlockC:
			if b == '*' {
				r.state = vhBlockStar
			}
		case vhBlockStar:
			if b == '/' {
				r.state = vhCode
			} else if b != '*' {
				r.state = vhBlockC
			}
		case vhTilde:
			r.state = vhCode // the byte after ~ is taken verbatim (gomacro quasi-quote syntax ~' ~" ~`)
		case vhHash:
			if b == '!' {
				r.state = vhLineC
			} else {
				tokenAt(i - 1)
				r.lastOp, r.lastPlusMinus = false, 0
				r.state = vhCode
				i--
			}
		}
	}
	return r
}

func vhCheckLine(line []byte) {
	orig := make([]byte, len(line))
	copy(orig, line)
	src, firstToken, err := ReadMultiline(&vhOneLine{line: line}, 0, "")
	ref := vhLex(orig)
	if ref.badLiteral {
		vhAssert(err != nil && err != io.EOF && err != io.ErrUnexpectedEOF, "a control byte inside a rune or string literal is reported")
		return
	}
	// returned text = the bytes read, except that a '#!' comment opener becomes '//'
	vhAssert(len(src) == len(orig), "the chunk has the length of the input read")
	if len(src) == len(orig) {
		for i := 0; i < len(orig); i++ {
			same := src[i] == orig[i] || (src[i] == '/' && (orig[i] == '#' || orig[i] == '!'))
			vhAssert(same, "the chunk holds the bytes that were read (a leading #! becomes //)")
		}
	}
	if err == nil {
		// the chunk ended after this line
		vhAssert(ref.state == vhCode || ref.state == vhLineC, "a chunk never ends inside a rune, string, raw string or block comment")
		vhAssert(ref.depth <= 0, "a chunk never ends inside an unbalanced bracket")
		if ref.depth == 0 {
			vhAssert(!ref.lastOp, "a chunk never ends right after a binary operator or comma")
			vhAssert(ref.lastPlusMinus%2 == 0, "a chunk ends after + or - only when they pair up as ++ or --")
		}
		if ref.first < 0 || orig[ref.first] != '/' { // no Go statement starts with a division operator
			vhAssert(firstToken == ref.first, "the offset of the first token is reported")
		}
	} else {
		vhAssert(err == io.EOF || err == io.ErrUnexpectedEOF, "otherwise the reader asks for more input")
		complete := (ref.state == vhCode || ref.state == vhLineC) && ref.depth == 0 && !ref.lastOp &&
			(ref.lastPlusMinus%2 == 0)
		vhAssert(!complete, "a line that closes every construct it opens, and does not end in an operator, ends the chunk")
	}
}

// prefixes that put the reader into each mode / bracket depth
var vhPrefixes = []string{"", "x", "(", "((x", "'", "'\\", "\"", "\"\\", "`", "/", "//", "/*", "/* *", "~", "#", "x+", "x-", "x++", "x +", "a,", ")", "x /", "#!", "x = y *", "f(a,"}
var vhSuffixes = []string{"", "x", ")", "*/", "'", "\"", "`", " ", "/", "\\\""}

func vhLineOf(prefix string, mid []byte, suffix string) []byte {
	line := make([]byte, 0, len(prefix)+len(mid)+len(suffix)+1)
	line = append(line, prefix...)
	line = append(line, mid...)
	line = append(line, suffix...)
	line = append(line, '\n')
	return line
}

func vhStep1(p int) {
	prefix := vhPrefixes[p]
	suffix := vhSuffixes[vhPick("suffix", len(vhSuffixes))]
	b := vhU8("byte")
	vhAssume(b != '\n')
	vhAssume(b != '#') // '#' outside literals and comments is not Go (only the leading #! line is special)
	vhCheckLine(vhLineOf(prefix, []byte{b}, suffix))
	vhReach("end")
}

func VH_C26_step1_p00() { vhStep1(0) }
func VH_C26_step1_p01() { vhStep1(1) }
func VH_C26_step1_p02() { vhStep1(2) }
func VH_C26_step1_p03() { vhStep1(3) }
func VH_C26_step1_p04() { vhStep1(4) }
func VH_C26_step1_p05() { vhStep1(5) }
func VH_C26_step1_p06() { vhStep1(6) }
func VH_C26_step1_p07() { vhStep1(7) }
func VH_C26_step1_p08() { vhStep1(8) }
func VH_C26_step1_p09() { vhStep1(9) }
func VH_C26_step1_p10() { vhStep1(10) }
func VH_C26_step1_p11() { vhStep1(11) }
func VH_C26_step1_p12() { vhStep1(12) }
func VH_C26_step1_p13() { vhStep1(13) }
func VH_C26_step1_p15() { vhStep1(15) }
func VH_C26_step1_p16() { vhStep1(16) }
func VH_C26_step1_p17() { vhStep1(17) }
func VH_C26_step1_p18() { vhStep1(18) }
func VH_C26_step1_p19() { vhStep1(19) }
func VH_C26_step1_p20() { vhStep1(20) }
func VH_C26_step1_p21() { vhStep1(21) }
func VH_C26_step1_p22() { vhStep1(22) }
func VH_C26_step1_p23() { vhStep1(23) }
func VH_C26_step1_p24() { vhStep1(24) }

// ---- two symbolic bytes (thorough tier) ----

func vhStep2(p int) {
	prefix := vhPrefixes[p]
	b1, b2 := vhU8("byte1"), vhU8("byte2")
	vhAssume(b1 != '\n' && b2 != '\n' && b1 != '#' && b2 != '#')
	vhCheckLine(vhLineOf(prefix, []byte{b1, b2}, ""))
	vhReach("end")
}

// ---- constructs spanning two lines ----

type vhTwoLines struct {
	lines [][]byte
	next  int
}

func (r *vhTwoLines) Read(prompt string) ([]byte, error) {
	if r.next >= len(r.lines) {
		return nil, io.EOF
	}
	l := r.lines[r.next]
	r.next++
	return l, nil
}

var vhOpeners = []string{"`", "/*", "x = (", "x +", "f(a,", "x := y /", "s := \"a", "/* *", "if x {", "x ="}

func vhSpan(k int) {
	l1 := vhLineOf(vhOpeners[k], nil, "")
	b := vhU8("byte")
	vhAssume(b != '\n' && b != '#')
	l2 := vhLineOf("", []byte{b}, vhSuffixes[vhPick("suffix", len(vhSuffixes))])
	all := append(append([]byte{}, l1...), l2...)
	rd := &vhTwoLines{lines: [][]byte{l1, l2}}
	src, _, err := ReadMultiline(rd, 0, "")
	ref1 := vhLex(l1)
	if ref1.badLiteral {
		vhAssert(err != nil && err != io.EOF && err != io.ErrUnexpectedEOF, "a control byte inside a rune or string literal is reported")
		vhReach("end")
		return
	}
	open1 := !(ref1.state == vhCode || ref1.state == vhLineC) || ref1.depth > 0 || ref1.lastOp || (ref1.lastPlusMinus%2 != 0)
	if open1 {
		vhAssert(rd.next == 2, "a construct left open at the end of a line makes the reader take the next line")
	}
	if rd.next == 2 {
		ref := vhLex(all)
		if ref.badLiteral {
			vhAssert(err != nil && err != io.EOF && err != io.ErrUnexpectedEOF, "a control byte inside a rune or string literal is reported")
		} else {
			vhAssert(len(src) == len(all), "the chunk is the concatenation of the lines read")
			if err == nil {
				vhAssert(ref.state == vhCode || ref.state == vhLineC, "a chunk never ends inside a rune, string, raw string or block comment")
				vhAssert(ref.depth <= 0, "a chunk never ends inside an unbalanced bracket")
				if ref.depth == 0 {
					vhAssert(!ref.lastOp, "a chunk never ends right after a binary operator or comma")
				}
			}
		}
	} else {
		vhAssert(len(src) == len(l1) && err == nil, "otherwise the chunk is the first line")
	}
	vhReach("end")
}
func VH_C26_T_step2_p00() { vhStep2(0) }
func VH_C26_T_step2_p01() { vhStep2(1) }
func VH_C26_T_step2_p02() { vhStep2(2) }
func VH_C26_T_step2_p03() { vhStep2(3) }
func VH_C26_T_step2_p04() { vhStep2(4) }
func VH_C26_T_step2_p05() { vhStep2(5) }
func VH_C26_T_step2_p06() { vhStep2(6) }
func VH_C26_T_step2_p07() { vhStep2(7) }
func VH_C26_T_step2_p08() { vhStep2(8) }
func VH_C26_T_step2_p09() { vhStep2(9) }
func VH_C26_T_step2_p10() { vhStep2(10) }
func VH_C26_T_step2_p11() { vhStep2(11) }
func VH_C26_T_step2_p12() { vhStep2(12) }
func VH_C26_T_step2_p13() { vhStep2(13) }
func VH_C26_T_step2_p15() { vhStep2(15) }
func VH_C26_T_step2_p16() { vhStep2(16) }
func VH_C26_T_step2_p17() { vhStep2(17) }
func VH_C26_T_step2_p18() { vhStep2(18) }
func VH_C26_T_step2_p19() { vhStep2(19) }
func VH_C26_T_step2_p20() { vhStep2(20) }
func VH_C26_T_step2_p21() { vhStep2(21) }
func VH_C26_T_step2_p22() { vhStep2(22) }
func VH_C26_T_step2_p23() { vhStep2(23) }
func VH_C26_T_step2_p24() { vhStep2(24) }
func VH_C26_span_00() { vhSpan(0) }
func VH_C26_span_01() { vhSpan(1) }
func VH_C26_span_02() { vhSpan(2) }
func VH_C26_span_03() { vhSpan(3) }
func VH_C26_span_04() { vhSpan(4) }
func VH_C26_span_05() { vhSpan(5) }
func VH_C26_span_06() { vhSpan(6) }
func VH_C26_span_07() { vhSpan(7) }
func VH_C26_span_08() { vhSpan(8) }
func VH_C26_span_09() { vhSpan(9) }
