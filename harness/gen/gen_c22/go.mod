module gen_c22
go 1.23
