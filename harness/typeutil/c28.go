package PKG

// C28: type identity is reflexive/symmetric/never fails, identical types hash equally, Map behaves like an
// association list keyed by identity.  Type *shapes* are enumerated (constructor per node); every scalar
// attribute (array length, channel direction, field/method names, tags, embedded and variadic flags,
// basic kind) is symbolic.

import (
	"github.com/cosmos72/gomacro/go/types"
)

var vhNamedIfaces []*types.Named
var vhNamedStruct *types.Named
var vhPkgs []*types.Package

// field names: unexported "a" (identity needs the same package), exported "B" (package ignored)
func vhFieldName(tag string) string { return []string{"a", "B"}[vhPick(tag, 2)] }

func vhNamed() {
	if vhNamedIfaces != nil {
		return
	}
	pkg := types.NewPackage("p", "p")
	vhPkgs = []*types.Package{pkg, types.NewPackage("q", "q")}
	// E0 has no methods; E1 declares a(), E2 declares b(): the same names explicit methods can have
	for i, n := range []string{"E0", "E1", "E2"} {
		var ms []*types.Func
		if i > 0 {
			ms = []*types.Func{types.NewFunc(0, nil, []string{"", "a", "b"}[i], types.NewSignature(nil, nil, nil, false))}
		}
		it := types.NewInterfaceType(ms, nil).Complete()
		vhNamedIfaces = append(vhNamedIfaces, types.NewNamed(types.NewTypeName(0, pkg, n, nil), it, nil))
	}
	vhNamedStruct = types.NewNamed(types.NewTypeName(0, pkg, "S", nil), types.NewStruct(nil, nil), nil)
}

func vhBasicT(tag string) types.Type {
	kinds := []types.BasicKind{types.Int, types.String}
	return types.Typ[kinds[vhPick(tag+" basic kind", 2)]]
}

// vhMaxN: maximum number of fields / parameters / results / methods / embedded interfaces per type
var vhMaxN = 1

func vhLeaf(tag string) types.Type {
	switch vhPick(tag+" leaf", 2) {
	case 0:
		return vhBasicT(tag)
	default:
		return vhNamedStruct
	}
}

// names and tags range over two constants (a symbolic string would fork at every byte loop of the hasher)
func vhName(tag string) string { return []string{"a", "b"}[vhPick(tag, 2)] }

func vhMethodSig(tag string) *types.Signature {
	if vhPick(tag+" method signature", 2) == 0 {
		return types.NewSignature(nil, nil, nil, false)
	}
	return types.NewSignature(nil, types.NewTuple(types.NewParam(0, nil, "x", types.Typ[types.Int])), nil, false)
}

func vhTuple(tag string, n int, sliceLast bool) *types.Tuple {
	vars := make([]*types.Var, n)
	for i := range vars {
		t := vhLeaf(tag)
		if sliceLast && i == n-1 {
			t = types.NewSlice(t)
		}
		vars[i] = types.NewParam(0, nil, vhName(tag+" param name"), t)
	}
	return types.NewTuple(vars...)
}

func vhSignature(tag string) *types.Signature {
	np, nr := vhPick(tag+" params", vhMaxN+1), vhPick(tag+" results", 2)
	variadic := false
	if np > 0 {
		variadic = vhPick(tag+" variadic", 2) == 1
	}
	return types.NewSignature(nil, vhTuple(tag+" p", np, variadic), vhTuple(tag+" r", nr, false), variadic)
}

// vhType builds one type of nesting depth <= depth
func vhType(tag string, depth int) types.Type { return vhTypeC(tag, depth, -1) }

// vhTypeC: as vhType with the outermost constructor given (ctor < 0: any)
func vhTypeC(tag string, depth int, ctor int) types.Type {
	if depth == 0 {
		return vhLeaf(tag)
	}
	if ctor < 0 {
		ctor = vhPick(tag+" constructor", 9)
	}
	switch ctor {
	case 0:
		return vhLeaf(tag)
	case 1:
		n := vhI64(tag + " array length")
		vhAssume(n >= 0)
		return types.NewArray(vhType(tag, depth-1), n)
	case 2:
		return types.NewSlice(vhType(tag, depth-1))
	case 3:
		return types.NewPointer(vhType(tag, depth-1))
	case 4:
		return types.NewMap(vhBasicT(tag+" key"), vhType(tag, depth-1))
	case 5:
		dirs := []types.ChanDir{types.SendRecv, types.SendOnly, types.RecvOnly}
		return types.NewChan(dirs[vhPick(tag+" chan dir", 3)], vhType(tag, depth-1))
	case 6:
		nf := vhPick(tag+" fields", vhMaxN+1)
		fields := make([]*types.Var, nf)
		tags := make([]string, nf)
		for i := range fields {
			fields[i] = types.NewField(0, vhPkgs[vhPick(tag+" field package", 2)], vhFieldName(tag+" field name"), vhType(tag, depth-1), vhBool(tag+" embedded"))
			tags[i] = vhName(tag + " field tag")
		}
		if nf == 2 {
			vhAssume(fields[0].Name() != fields[1].Name()) // precondition of NewStruct
		}
		return types.NewStruct(fields, tags)
	case 7:
		return vhSignature(tag)
	default:
		nm, ne := vhPick(tag+" methods", vhMaxN+1), vhPick(tag+" embeddeds", vhMaxN+1)
		ms := make([]*types.Func, nm)
		for i := range ms {
			ms[i] = types.NewFunc(0, nil, vhName(tag+" method name"), vhMethodSig(tag))
		}
		if nm == 2 {
			vhAssume(ms[0].Name() != ms[1].Name())
		}
		es := make([]types.Type, ne)
		for i := range es {
			es[i] = vhNamedIfaces[vhPick(tag+" embedded interface", 3)]
		}
		if ne == 2 {
			vhAssume(es[0] != es[1])
		}
		// a valid interface has no duplicate method names, counting the embedded ones
		for i := range ms {
			for j := range es {
				e := es[j].(*types.Named).Underlying().(*types.Interface)
				for k := 0; k < e.NumMethods(); k++ {
					vhAssume(e.Method(k).Name() != ms[i].Name())
				}
			}
		}
		return types.NewInterfaceType(ms, es).Complete()
	}
}

func vhIdent(x, y types.Type) (res, failed bool) {
	defer func() {
		if recover() != nil {
			res, failed = false, true
		}
	}()
	return Identical(x, y), false
}

func vhHash(h Hasher, x types.Type) (res uint32, failed bool) {
	defer func() {
		if recover() != nil {
			res, failed = 0, true
		}
	}()
	return h.Hash(x), false
}

func vhCheckPair(x, y types.Type) {
	xy, f1 := vhIdent(x, y)
	yx, f2 := vhIdent(y, x)
	vhAssert(!f1 && !f2, "the identity test returns without failing")
	if !f1 && !f2 {
		vhAssert(xy == yx, "identity is symmetric")
	}
	xx, f3 := vhIdent(x, x)
	vhAssert(!f3 && xx, "identity is reflexive")
	h := MakeHasher()
	hx, f4 := vhHash(h, x)
	hy, f5 := vhHash(h, y)
	vhAssert(!f4 && !f5, "the hash returns without failing")
	if !f1 && !f4 && !f5 && xy {
		vhAssert(hx == hy, "identical types have equal hashes")
	}
}

func VH_C28_pair_depth0() {
	vhNamed()
	vhCheckPair(vhType("x", 0), vhType("y", 0))
	vhReach("end")
}

// same outermost constructor on both sides (the interesting case for identity), everything else independent
func vhPairOf(ctor int) {
	vhNamed()
	vhCheckPair(vhTypeC("x", 1, ctor), vhTypeC("y", 1, ctor))
	vhReach("end")
}

func VH_C28_pair_array()     { vhPairOf(1) }
func VH_C28_pair_slice()     { vhPairOf(2) }
func VH_C28_pair_pointer()   { vhPairOf(3) }
func VH_C28_pair_map()       { vhPairOf(4) }
func VH_C28_pair_chan()      { vhPairOf(5) }
func VH_C28_pair_struct()    { vhPairOf(6) }
func VH_C28_pair_signature() { vhPairOf(7) }
func VH_C28_pair_interface() { vhPairOf(8) }

// different constructors: never identical, never failing
func VH_C28_pair_mixed() {
	vhNamed()
	cx, cy := vhPick("x constructor", 9), vhPick("y constructor", 9)
	vhAssume(cx < cy)
	x, y := vhTypeC("x", 1, cx), vhTypeC("y", 1, cy)
	xy, f1 := vhIdent(x, y)
	yx, f2 := vhIdent(y, x)
	vhAssert(!f1 && !f2, "the identity test returns without failing")
	if cx != 0 {
		vhAssert(!xy && !yx, "types built by different constructors are never identical")
	}
	vhReach("end")
}

// ---- Map against an association list keyed by Identical ----

func vhMapOf(ctor int) {
	vhNamed()
	keys := []types.Type{vhTypeC("k0", 1, ctor), vhTypeC("k1", 1, ctor)}
	q := vhTypeC("q", 1, ctor)
	m := new(Map)
	// reference association list
	var rk []types.Type
	var rv []int
	refFind := func(k types.Type) int {
		for i := range rk {
			if Identical(k, rk[i]) {
				return i
			}
		}
		return -1
	}
	check := func(what string) {
		vhAssert(m.Len() == len(rk), "Len counts the distinct keys")
		for _, k := range []types.Type{keys[0], keys[1], q} {
			j := refFind(k)
			if j >= 0 {
				vhAssert(m.At(k) == interface{}(rv[j]), "At finds the value stored under an identical key")
			} else {
				vhAssert(m.At(k) == nil, "At of an absent key is nil")
			}
		}
	}
	set := func(k types.Type, v int) {
		prev := m.Set(k, v)
		j := refFind(k)
		if j >= 0 {
			vhAssert(prev == interface{}(rv[j]), "Set returns the previous value of an identical key")
			rv[j] = v
		} else {
			vhAssert(prev == nil, "Set of a new key returns nil")
			rk = append(rk, k)
			rv = append(rv, v)
		}
	}
	del := func(k types.Type) {
		j := refFind(k)
		deleted := m.Delete(k)
		vhAssert(deleted == (j >= 0), "Delete reports whether an identical key was present")
		if j >= 0 {
			rk = append(rk[:j:j], rk[j+1:]...)
			rv = append(rv[:j:j], rv[j+1:]...)
		}
	}
	set(keys[0], 10)
	set(keys[1], 11)
	check("after two sets")
	all := []types.Type{keys[0], keys[1], q}
	del(all[vhPick("deleted key", 3)])
	check("after delete")
	set(all[vhPick("key set again", 3)], 99)
	check("after re-set")
	vhReach("end")
}

func VH_C28_map_array()     { vhMapOf(1) }
func VH_C28_map_pointer()   { vhMapOf(3) }
func VH_C28_map_chan()      { vhMapOf(5) }
func VH_C28_T_map_struct()  { vhMapOf(6) }
func VH_C28_T_map_signature() { vhMapOf(7) }

func vhWide(f func()) {
	vhMaxN = 2
	defer func() { vhMaxN = 1 }()
	f()
}
func VH_C28_T_pair_struct2()    { vhWide(func() { vhPairOf(6) }) }
func VH_C28_T_pair_signature2() { vhWide(func() { vhPairOf(7) }) }
func VH_C28_T_pair_interface2() { vhWide(func() { vhPairOf(8) }) }
func VH_C28_T_map_interface() { vhMapOf(8) }
func VH_C28_map_leaf()      { vhMapOf(0) }
