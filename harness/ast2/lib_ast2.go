package PKG

// C22 helpers: copy a node through the generic wrapper interface.

func vhRoundTrip(x Ast) (y Ast, size int, failed bool) {
	defer func() {
		if recover() != nil {
			y, failed = nil, true
		}
	}()
	y = x.New()
	size = x.Size()
	if ys, isSlice := y.(AstWithSlice); isSlice {
		// list-like nodes (block, field list, declaration group, return): children are appended
		for i := 0; i < size; i++ {
			ys = ys.Append(x.Get(i))
		}
		return ys, size, false
	}
	for i := 0; i < size; i++ {
		y.Set(i, x.Get(i))
	}
	return y, size, false
}

// vhBadIndexPanics: both Get(i) and Set(i) must refuse index i
func vhBadIndexPanics(x Ast, i int) bool {
	get := func() (p bool) {
		defer func() { p = recover() != nil }()
		x.New().Get(i)
		return false
	}()
	set := func() (p bool) {
		defer func() { p = recover() != nil }()
		x.New().Set(i, nil)
		return false
	}()
	if _, isSlice := x.(AstWithSlice); isSlice {
		// Size of the empty copy is 0: every index is out of range for Get and Set
		return get && set
	}
	return get && set
}
