package PKG

// C04 (untyped binary constant expressions): Comp.BinaryExprUntyped on integer and rune constants

import (
	"go/ast"
	"go/constant"
	"go/token"

	"github.com/cosmos72/gomacro/base/untyped"
	xr "github.com/cosmos72/gomacro/xreflect"
)

func vhUntypedComp() *Comp {
	c := vhComp()
	if vhSymbolic() {
		c.CompGlobals.Universe = &xr.Universe{}
	}
	return c
}

// operands: arbitrary integer constants (|c| < 2^130), each either an untyped int or an untyped rune.
// The oracle for values is go/constant itself (the evaluator the Go compiler's semantics are defined by), applied
// with the operator the language specification prescribes: integer division for integer and rune operands.
func vhUntypedOperands(c *Comp) (x, y UntypedLit, xc, yc constant.Value, wantKind untyped.Kind) {
	kinds := [...]untyped.Kind{untyped.Int, untyped.Rune}
	xk, yk := kinds[vhPick("left operand kind (int, rune)", 2)], kinds[vhPick("right operand kind (int, rune)", 2)]
	xc, yc = vhConstInt("x"), vhConstInt("y")
	x = untyped.MakeLit(xk, xc, &c.Universe.BasicTypes)
	y = untyped.MakeLit(yk, yc, &c.Universe.BasicTypes)
	wantKind = untyped.Int
	if xk == untyped.Rune || yk == untyped.Rune {
		wantKind = untyped.Rune
	}
	return
}

func vhUntypedArith(op token.Token) {
	c := vhUntypedComp()
	x, y, xc, yc, wantKind := vhUntypedOperands(c)
	var e *Expr
	failed := false
	func() {
		defer func() {
			if recover() != nil {
				failed = true
			}
		}()
		e = c.BinaryExprUntyped(&ast.BinaryExpr{Op: op}, x, y)
	}()
	wantOp := op
	switch op {
	case token.ADD_ASSIGN:
		wantOp = token.ADD
	case token.QUO:
		wantOp = token.QUO_ASSIGN // integer division
	}
	wantFail := (wantOp == token.QUO_ASSIGN || wantOp == token.REM) && constant.Sign(yc) == 0
	vhAssert(failed == wantFail, "rejected exactly when Go rejects the constant expression (division by zero)")
	if failed || wantFail {
		vhReach("end")
		return
	}
	want := constant.BinaryOp(xc, wantOp, yc)
	z, ok := e.Value.(UntypedLit)
	vhAssert(ok, "the result is an untyped constant")
	if !ok {
		return
	}
	vhAssert(vhConstKind(z.Val) == int(constant.Int), "an operation on integer constants gives an integer constant (integer division truncates)")
	vhAssert(z.Kind == wantKind, "untyped kind: rune if either operand is a rune, else int")
	if vhConstKind(z.Val) == int(constant.Int) {
		vhAssert(constant.Compare(z.Val, token.EQL, want), "exact value")
	}
	vhReach("end")
}

func VH_C04_binaryUntyped_add()       { vhUntypedArith(token.ADD) }
func VH_C04_binaryUntyped_addAssign() { vhUntypedArith(token.ADD_ASSIGN) }
func VH_C04_binaryUntyped_sub()       { vhUntypedArith(token.SUB) }
func VH_C04_binaryUntyped_mul()       { vhUntypedArith(token.MUL) }
func VH_C04_binaryUntyped_quo()       { vhUntypedArith(token.QUO) }
func VH_C04_binaryUntyped_quoAssign() { vhUntypedArith(token.QUO_ASSIGN) }
func VH_C04_binaryUntyped_rem()       { vhUntypedArith(token.REM) }
func VH_C04_binaryUntyped_and()       { vhUntypedArith(token.AND) }
func VH_C04_binaryUntyped_or()        { vhUntypedArith(token.OR) }
func VH_C04_binaryUntyped_xor()       { vhUntypedArith(token.XOR) }
func VH_C04_binaryUntyped_andNot()    { vhUntypedArith(token.AND_NOT) }

func vhUntypedCompare(op token.Token) {
	c := vhUntypedComp()
	x, y, xc, yc, _ := vhUntypedOperands(c)
	e := c.BinaryExprUntyped(&ast.BinaryExpr{Op: op}, x, y)
	want := constant.Compare(xc, op, yc)
	z, ok := e.Value.(UntypedLit)
	vhAssert(ok && z.Kind == untyped.Bool && vhConstKind(z.Val) == int(constant.Bool), "a comparison of constants is an untyped boolean constant")
	if ok && vhConstKind(z.Val) == int(constant.Bool) {
		vhAssert(constant.BoolVal(z.Val) == want, "value")
	}
	vhReach("end")
}

func VH_C04_binaryUntyped_eql() { vhUntypedCompare(token.EQL) }
func VH_C04_binaryUntyped_neq() { vhUntypedCompare(token.NEQ) }
func VH_C04_binaryUntyped_lss() { vhUntypedCompare(token.LSS) }
func VH_C04_binaryUntyped_leq() { vhUntypedCompare(token.LEQ) }
func VH_C04_binaryUntyped_gtr() { vhUntypedCompare(token.GTR) }
func VH_C04_binaryUntyped_geq() { vhUntypedCompare(token.GEQ) }

// untyped constant shifts: x << y, x >> y for an integer or rune constant x and an integer constant count y
func vhUntypedShift(op token.Token) {
	c := vhUntypedComp()
	x, y, xc, yc, _ := vhUntypedOperands(c)
	var e *Expr
	failed := false
	func() {
		defer func() {
			if recover() != nil {
				failed = true
			}
		}()
		e = c.BinaryExprUntyped(&ast.BinaryExpr{Op: op}, x, y)
	}()
	count, fits := constant.Uint64Val(yc)
	vhAssume(!fits || count < 4096) // bound: larger counts are outside the claim (and would not be replayable natively)
	vhAssert(failed == !fits, "rejected exactly when the count is negative or does not fit the shift count type")
	if failed || !fits {
		vhReach("end")
		return
	}
	wantOp := op
	switch op {
	case token.SHL_ASSIGN:
		wantOp = token.SHL
	case token.SHR_ASSIGN:
		wantOp = token.SHR
	}
	want := constant.Shift(xc, wantOp, uint(count))
	z, ok := e.Value.(UntypedLit)
	vhAssert(ok, "the result is an untyped constant")
	if !ok {
		return
	}
	vhAssert(z.Kind == x.Kind, "a shift keeps the untyped kind of its left operand")
	vhAssert(vhConstKind(z.Val) == int(constant.Int) && constant.Compare(z.Val, token.EQL, want), "value: the left operand shifted by the count in the operator's direction")
	vhReach("end")
}

func VH_C04_binaryUntyped_shl()       { vhUntypedShift(token.SHL) }
func VH_C04_binaryUntyped_shr()       { vhUntypedShift(token.SHR) }
func VH_C04_binaryUntyped_shlAssign() { vhUntypedShift(token.SHL_ASSIGN) }
func VH_C04_binaryUntyped_shrAssign() { vhUntypedShift(token.SHR_ASSIGN) }

// typed constant expressions: x op y on two int8 (resp. uint8) constants is rejected exactly when the exact result does
// not fit the type (Go: "constant 200 overflows int8"), otherwise it is the constant with that value
func vhTypedConstBinary(op token.Token, signed bool) {
	c := vhUntypedComp()
	var x, y *Expr
	var xi, yi, lo, hi int64
	if signed {
		a, b := vhI8("x"), vhI8("y")
		x, y = vhExprValue(vhTypeOf(a), a), vhExprValue(vhTypeOf(b), b)
		xi, yi, lo, hi = int64(a), int64(b), -128, 127
	} else {
		a, b := vhU8("x"), vhU8("y")
		x, y = vhExprValue(vhTypeOf(a), a), vhExprValue(vhTypeOf(b), b)
		xi, yi, lo, hi = int64(a), int64(b), 0, 255
	}
	vhAssume(op != token.QUO || yi != 0)
	var e *Expr
	failed := false
	func() {
		defer func() {
			if recover() != nil {
				failed = true
			}
		}()
		e = c.BinaryExpr1(&ast.BinaryExpr{Op: op}, x, y)
	}()
	var exact int64
	switch op {
	case token.ADD:
		exact = xi + yi
	case token.SUB:
		exact = xi - yi
	case token.MUL:
		exact = xi * yi
	case token.QUO:
		exact = xi / yi
	}
	fits := lo <= exact && exact <= hi
	vhAssert(failed == !fits, "a typed constant expression is rejected exactly when its exact value overflows the type")
	if !failed && fits {
		vhAssert(e.Const(), "the result is a constant")
		if signed {
			v, ok := e.Value.(int8)
			vhAssert(ok && int64(v) == exact, "with the exact value")
		} else {
			v, ok := e.Value.(uint8)
			vhAssert(ok && int64(v) == exact, "with the exact value")
		}
	}
	vhReach("end")
}

func VH_C04_typedConst_int8_add()  { vhTypedConstBinary(token.ADD, true) }
func VH_C04_typedConst_int8_sub()  { vhTypedConstBinary(token.SUB, true) }
func VH_C04_typedConst_int8_mul()  { vhTypedConstBinary(token.MUL, true) }
func VH_C04_typedConst_int8_quo()  { vhTypedConstBinary(token.QUO, true) }
func VH_C04_typedConst_uint8_add() { vhTypedConstBinary(token.ADD, false) }
func VH_C04_typedConst_uint8_sub() { vhTypedConstBinary(token.SUB, false) }
func VH_C04_typedConst_uint8_mul() { vhTypedConstBinary(token.MUL, false) }
func VH_C04_typedConst_uint8_quo() { vhTypedConstBinary(token.QUO, false) }
