package PKG

// C07: defer / panic / recover bookkeeping.   C12: state after an evaluation aborted by a panic.

import (
	"go/ast"
	"go/token"
	r "reflect"

	"github.com/cosmos72/gomacro/base"
	xr "github.com/cosmos72/gomacro/xreflect"
)

func vhNewRun() *Run { return &Run{IrGlobals: &IrGlobals{}} }

// ---- recover(): honoured exactly when called by a deferred function of the panicking function ----

func VH_C07_recoverRule() {
	run := vhNewRun()
	envs := []*Env{nil, &Env{Run: run}, &Env{Run: run}}
	run.ExecFlags = ExecFlags(vhU8("flags"))
	pf, df := vhPick("panicking function", 3), vhPick("function whose defers run", 3)
	run.PanicFun, run.DeferOfFun = envs[pf], envs[df]
	hasValue := vhBool("panic value is non-nil")
	var val interface{}
	if hasValue {
		val = "boom"
	}
	run.Panic = val
	flags := run.ExecFlags
	caller := &Env{Run: run}
	callRecover(xr.ValueOf(caller))
	honoured := flags.IsDefer() && pf != 0 && pf == df
	if honoured {
		vhAssert(run.PanicFun == nil && run.Panic == nil, "recover() in a deferred function of the panicking function consumes the panic")
	} else {
		vhAssert(run.PanicFun == envs[pf] && run.Panic == val, "recover() anywhere else leaves the panic pending")
	}
	vhAssert(run.DeferOfFun == envs[df] && run.ExecFlags == flags, "recover() touches nothing else")
	vhReach("end")
}

// ---- function bodies as compiled code ----

func vhDeferStmt(fun func()) Stmt {
	return func(env *Env) (Stmt, *Env) {
		env.IP++
		run := env.Run
		run.InstallDefer = fun
		run.Signals.Sync = base.SigDefer
		return run.Interrupt, env
	}
}

func vhPlainStmt(f func(env *Env)) Stmt {
	return func(env *Env) (Stmt, *Env) {
		f(env)
		env.IP++
		return env.Code[env.IP], env
	}
}

func vhFunction(stmts ...Stmt) func(*Env) {
	code := &Code{List: stmts, DebugPos: make([]token.Pos, len(stmts)), WithDefers: true}
	return code.Exec()
}

// vhInterp wraps a body as an interpreted function of its own (own frame, own executor run), as the
// functions called by `defer f()` are
func vhInterp(run *Run, body func(env *Env)) func() {
	code := &Code{List: []Stmt{vhPlainStmt(body)}, DebugPos: make([]token.Pos, 1)}
	f := code.Exec()
	return func() { f(&Env{Run: run}) }
}

// a function with two defers; the body optionally panics; the second defer (runs first) optionally recovers
func VH_C07_deferOrderAndRecover() {
	run := vhNewRun()
	funenv := &Env{Run: run}
	bodyPanics := vhBool("body panics")
	recovers := vhBool("a deferred function calls recover")
	seq, d1At, d2At, bodyAt := 0, 0, 0, 0
	d1 := vhInterp(run, func(env *Env) { seq++; d1At = seq })
	d2 := vhInterp(run, func(env *Env) {
		seq++
		d2At = seq
		if recovers {
			callRecover(xr.ValueOf(env))
		}
	})
	f := vhFunction(
		vhDeferStmt(d1),
		vhDeferStmt(d2),
		vhPlainStmt(func(env *Env) {
			seq++
			bodyAt = seq
			if bodyPanics {
				panic("body")
			}
		}),
	)
	rec := vhRunRecover(func() { f(funenv) })
	vhAssert(bodyAt == 1 && d2At == 2 && d1At == 3, "deferred calls run after the body, last deferred first, also when the body panics")
	if bodyPanics && !recovers {
		vhAssert(rec == interface{}("body"), "an unrecovered panic escapes the function with its value")
	} else {
		vhAssert(rec == nil, "no panic escapes when there is none or it was recovered")
	}
	vhAssert(run.Signals.Sync == base.SigNone, "no signal left pending")
	vhReach("end")
}

// a panic raised by a deferred call replaces the pending one; recover in a nested (non-deferred) call is ignored
func VH_C07_nestedPanic() {
	run := vhNewRun()
	funenv := &Env{Run: run}
	bodyPanics := vhBool("body panics")
	deferPanics := vhBool("first-run deferred call panics")
	lastRecovers := vhBool("last-run deferred call recovers")
	d1 := vhInterp(run, func(env *Env) {
		if lastRecovers {
			callRecover(xr.ValueOf(env))
		}
	})
	d2 := vhInterp(run, func(env *Env) {
		if deferPanics {
			panic("deferred")
		}
	})
	f := vhFunction(vhDeferStmt(d1), vhDeferStmt(d2), vhPlainStmt(func(env *Env) {
		if bodyPanics {
			panic("body")
		}
	}))
	rec := vhRunRecover(func() { f(funenv) })
	switch {
	case lastRecovers:
		vhAssert(rec == nil, "the last deferred call recovers whatever panic is pending")
	case deferPanics:
		vhAssert(rec == interface{}("deferred"), "a panic in a deferred call replaces the pending panic")
	case bodyPanics:
		vhAssert(rec == interface{}("body"), "the body's panic escapes")
	default:
		vhAssert(rec == nil, "no panic")
	}
	vhReach("end")
}

// recover() called by a function that a deferred function calls (not directly deferred) must be ignored:
// the nested function body runs with its own executor, which clears the defer flag for its duration
func VH_C07_recoverNotDirectlyDeferred() {
	run := vhNewRun()
	funenv := &Env{Run: run}
	inner := vhInterp(run, func(env *Env) { callRecover(xr.ValueOf(env)) })
	d := vhInterp(run, func(env *Env) { inner() })
	f := vhFunction(vhDeferStmt(d), vhPlainStmt(func(env *Env) { panic("body") }))
	rec := vhRunRecover(func() { f(funenv) })
	vhAssert(rec == interface{}("body"), "recover() not called directly by a deferred function does not stop the panic")
	vhReach("end")
}

// ---- C12: an evaluation aborted by a panic leaves the bookkeeping as a fresh interpreter has it ----

func vhProbeAfterAbort(run *Run) {
	// probe 0: a function with a deferred call that neither panics nor recovers returns normally
	ran0 := 0
	probe0 := vhFunction(vhDeferStmt(vhInterp(run, func(env *Env) { ran0++ })), vhPlainStmt(func(env *Env) { ran0++ }))
	rec0 := vhRunRecover(func() { probe0(&Env{Run: run}) })
	vhAssert(rec0 == nil && ran0 == 2, "a later function with a deferred call returns normally")
	// probe 1: recover() outside any deferred call returns nothing and changes nothing observable
	funenv := &Env{Run: run}
	ran := 0
	probe := vhFunction(
		vhDeferStmt(vhInterp(run, func(env *Env) { ran++; callRecover(xr.ValueOf(env)) })),
		vhPlainStmt(func(env *Env) { ran++; panic("probe") }),
	)
	rec := vhRunRecover(func() { probe(funenv) })
	vhAssert(rec == nil && ran == 2, "a later evaluation can still defer, panic and recover")
	// probe 2: a later panic without recover still escapes with its own value
	probe2 := vhFunction(vhDeferStmt(vhInterp(run, func(env *Env) { ran++ })), vhPlainStmt(func(env *Env) { panic("probe2") }))
	rec2 := vhRunRecover(func() { probe2(&Env{Run: run}) })
	vhAssert(rec2 == interface{}("probe2") && ran == 3, "a later unrecovered panic escapes with its own value after running its defers")
}

func VH_C12_abortedByPanic() {
	run := vhNewRun()
	n := 1 + vhPick("statements", 6)
	k := vhPick("statement that panics", 6)
	vhAssume(k < n)
	withDefers := vhBool("function has defers")
	inDefer := vhBool("panic raised inside a deferred call")
	caller := &Env{Run: run}
	run.CurrEnv = caller
	list := make([]Stmt, 0, n+1)
	if withDefers {
		list = append(list, vhDeferStmt(vhInterp(run, func(env *Env) {
			if inDefer {
				panic("abort")
			}
		})))
	}
	for i := 0; i < n; i++ {
		i := i
		list = append(list, vhPlainStmt(func(env *Env) {
			// what nested calls do to the bookkeeping while they run
			run.CurrEnv = env
			if i == k && !(withDefers && inDefer) {
				panic("abort")
			}
		}))
	}
	code := &Code{List: list, DebugPos: make([]token.Pos, len(list)), WithDefers: withDefers}
	f := code.Exec()
	rec := vhRunRecover(func() { f(&Env{Run: run}) })
	vhAssert(rec == interface{}("abort"), "the panic aborts the evaluation")
	vhAssert(!run.ExecFlags.IsDefer() && !run.ExecFlags.StartDefer(), "defer flags are back to their top-level values")
	vhAssert(run.Signals.Sync == base.SigNone && run.Signals.Async == base.SigNone && run.Signals.Debug == base.SigNone, "no signal left pending")
	if withDefers {
		vhAssert(run.CurrEnv == caller, "the call stack is restored")
		vhAssert(run.DeferOfFun == nil, "no function is recorded as running its defers")
	}
	vhProbeAfterAbort(run)
	vhReach("end")
}

// an evaluation through Interp.RunExpr that panics: the call stack pointer is restored
func vhModelPrepareEnv(ir *Interp) *Env { return ir.env }

func VH_C12_runExprAborted() {
	c := vhComp()
	run := &Run{IrGlobals: c.IrGlobals}
	top := &Env{Run: run}
	ir := &Interp{Comp: c, env: top}
	caller := &Env{Run: run}
	stack := []*Env{nil, caller}
	run.CurrEnv = stack[vhPick("evaluation started from interpreted code", 2)]
	before := run.CurrEnv
	panics := vhBool("the expression panics")
	var zero int
	e := exprFun(vhTypeOf(zero), func(env *Env) int {
		if panics {
			panic("abort")
		}
		return 1
	})
	rec := vhRunRecover(func() { ir.RunExpr(e) })
	vhAssert((rec != nil) == panics, "the panic aborts the evaluation")
	vhAssert(run.CurrEnv == before, "the current call stack is restored on return and on panic")
	vhReach("end")
}

// an evaluation that was single-stepping (started with DebugExpr, or switched to stepping by a breakpoint) and is
// aborted by a panic must not leave the debugger mode on for the next, plain evaluation
func VH_C12_debugModeAfterAbort() {
	c := vhComp()
	run := &Run{IrGlobals: c.IrGlobals}
	top := &Env{Run: run}
	ir := &Interp{Comp: c, env: top}
	viaDebugExpr := vhBool("first evaluation started with DebugExpr")
	breakpoint := vhBool("a breakpoint switches to single-stepping")
	depth := 1 + vhPick("debug depth", 3)
	panics := vhBool("the first evaluation panics")
	var zero int
	first := exprFun(vhTypeOf(zero), func(env *Env) int {
		if breakpoint {
			env.Run.applyDebugOp(DebugOp{Depth: depth})
		}
		if panics {
			panic("abort")
		}
		return 1
	})
	rec := vhRunRecover(func() {
		if viaDebugExpr {
			ir.DebugExpr(first)
		} else {
			ir.RunExpr(first)
		}
	})
	vhAssert((rec != nil) == panics, "the panic aborts the evaluation")
	var sawDebugFlag, sawDebugSignal bool
	var sawDepth int
	second := exprFun(vhTypeOf(zero), func(env *Env) int {
		r := env.Run
		sawDebugFlag, sawDebugSignal, sawDepth = r.ExecFlags.IsDebug(), r.Signals.Debug != base.SigNone, r.DebugDepth
		return 2
	})
	vs, _ := ir.RunExpr(second)
	vhAssert(len(vs) == 1 && vs[0].Int() == 2, "the next evaluation returns its value")
	vhAssert(!sawDebugFlag && !sawDebugSignal && sawDepth == 0, "the next plain evaluation does not run in debugger mode")
	vhReach("end")
}

// pushDefer / popDefer restore the bookkeeping for every prior state
func VH_C12_pushPopDefer() {
	run := vhNewRun()
	run.ExecFlags = ExecFlags(vhU8("flags"))
	old := &Env{}
	olds := []*Env{nil, old}
	run.DeferOfFun = olds[vhPick("previous", 2)]
	prev := run.DeferOfFun
	flags := run.ExecFlags
	fun := &Env{}
	panicking := vhBool("panicking")
	popDefer(pushDefer(run, fun, panicking))
	vhAssert(run.DeferOfFun == prev, "the function whose defers run is restored")
	vhAssert(run.ExecFlags.IsDefer() == flags.IsDefer() && !run.ExecFlags.StartDefer(), "defer flags restored, start-defer cleared")
	vhAssert(run.ExecFlags.IsDebug() == flags.IsDebug(), "debug flag untouched")
	if panicking {
		vhAssert(run.PanicFun == fun, "the panicking function is recorded")
	}
	vhReach("end")
}

func VH_C07_pushPopDefer() { VH_C12_pushPopDefer() }

// vhInterpFn: an interpreted function (own frame, own executor run) with optional deferred calls
func vhInterpFn(run *Run, defers []func(), body func(env *Env)) func() {
	list := make([]Stmt, 0, len(defers)+1)
	for _, d := range defers {
		list = append(list, vhDeferStmt(d))
	}
	list = append(list, vhPlainStmt(body))
	code := &Code{List: list, DebugPos: make([]token.Pos, len(list)), WithDefers: len(defers) > 0}
	f := code.Exec()
	return func() { f(&Env{Run: run}) }
}

// f panics; its deferred function d calls g; g has its own deferred function r that calls recover().
// r is a deferred function of g, and g is not panicking: recover() must return nil and f's panic escapes.
func VH_C07_recoverInDeferOfCalledFunction()         { vhRecoverInDeferOfCalledFunction(false) }
func VH_C07_recoverInDeferOfCalledFunction_nested() { vhRecoverInDeferOfCalledFunction(true) }

func vhRecoverInDeferOfCalledFunction(gPanics bool) {
	run := vhNewRun()
	r := vhInterp(run, func(env *Env) { callRecover(xr.ValueOf(env)) })
	g := vhInterpFn(run, []func(){r}, func(env *Env) {
		if gPanics {
			panic("inner")
		}
	})
	d := vhInterp(run, func(env *Env) { g() })
	f := vhInterpFn(run, []func(){d}, func(env *Env) { panic("outer") })
	rec := vhRunRecover(f)
	// compiled Go: r recovers g's own panic if there is one; the panic of f is never recovered by r
	vhAssert(rec == interface{}("outer"), "the outer panic is not stopped by recover() in a deferred function of another function")
	vhReach("end")
}

// a deferred call to a compiled function (no interpreted body) must not make the next interpreted call look deferred
func VH_C07_compiledDeferredCall() {
	run := vhNewRun()
	unlocked := 0
	compiled := func() { unlocked++ } // like mu.Unlock: runs no interpreted code
	h := vhInterpFn(run, []func(){compiled}, func(env *Env) {})
	helper := vhInterp(run, func(env *Env) { callRecover(xr.ValueOf(env)) })
	d := vhInterp(run, func(env *Env) {
		h()
		helper() // recover() in a helper called by the deferred function: must be ignored
	})
	f := vhInterpFn(run, []func(){d}, func(env *Env) { panic("outer") })
	rec := vhRunRecover(f)
	vhAssert(unlocked == 1, "the compiled deferred call runs once")
	vhAssert(rec == interface{}("outer"), "recover() in a helper is ignored also after a compiled deferred call")
	vhReach("end")
}

// an interrupt that arrives while a normally returning function runs its deferred calls (compiled functions such
// as mu.Unlock, or interpreted ones) is delivered when the function is left: it is not lost
func VH_C13_interrupt_duringDeferredCall() {
	run := &Run{IrGlobals: &IrGlobals{}}
	env := &Env{Run: run}
	n := vhPick("plain statements in the body", 4)
	ndefers := 1 + vhPick("deferred calls", 2)
	at := vhPick("deferred call during which Ctrl-C arrives", 2)
	vhAssume(at < ndefers)
	interpreted := vhBool("the deferred functions are interpreted")
	ran := 0
	list := make([]Stmt, 0, n+ndefers)
	for i := 0; i < ndefers; i++ {
		i := i
		body := func() {
			// defers run in reverse order of installation
			if ndefers-1-i == at {
				run.interrupt()
			}
			ran++
		}
		if interpreted {
			list = append(list, vhDeferStmt(vhInterp(run, func(*Env) { body() })))
		} else {
			list = append(list, vhDeferStmt(body))
		}
	}
	for i := 0; i < n; i++ {
		list = append(list, vhPlainStmt(func(*Env) {}))
	}
	code := &Code{List: list, DebugPos: make([]token.Pos, len(list)), WithDefers: true}
	f := code.Exec()
	caller := &Env{}
	run.CurrEnv = caller
	rec := vhRunRecover(func() { f(env) })
	vhAssert(ran == ndefers, "every deferred call runs")
	vhAssert(rec == interface{}(base.SigInterrupt), "the interrupt is delivered when the function is left")
	vhAssert(run.Signals.Async == base.SigNone && run.Signals.Sync == base.SigNone, "the interrupt is consumed")
	vhAssert(run.CurrEnv == caller, "caller frame restored")
	vhReach("end")
}

// ---- defer of builtins: defer delete(m, k) / defer copy(dst, src) / defer recover() ----
// The call is compiled by the real compileDelete / compileCopy / compileRecover (argument sub-expressions come from the
// harness), handed to the real Comp.Defer through a model of prepareCall, and the function body
// [defer builtin(args); change the variables the arguments were computed from] is run by the real executor.

var vhPreparedCall *Call

func vhModelPrepareCall(c *Comp, node *ast.CallExpr, fun *Expr) *Call { return vhPreparedCall }

func VH_C07_deferBuiltin() {
	c := vhComp()
	if vhSymbolic() {
		u := &xr.Universe{}
		u.BasicTypes = make([]xr.Type, int(r.UnsafePointer)+1)
		u.BasicTypes[r.Int] = vhTypeOf(int(0))
		u.BasicTypes[r.Bool] = vhTypeOf(false)
		u.BasicTypes[r.Uint8] = vhTypeOf(uint8(0))
		u.BasicTypes[r.String] = vhTypeOf("")
		var e interface{}
		u.TypeOfInterface = vhTypeOf(&e).Elem()
		c.CompGlobals.Universe = u
	}
	run := vhNewRun()
	which := vhPick("deferred builtin: delete / copy / recover", 3)
	k1, k2, key := vhU8("k1"), vhU8("k2"), vhU8("key")
	vhAssume(k1 != k2)
	m := map[uint8]int32{k1: 1, k2: 2}
	dst := []int32{0, 0}
	src := []int32{vhI32("s0"), vhI32("s1")}
	want0, want1 := src[0], src[1]
	keyAtDefer := key
	bodyPanics := vhBool("the function panics after the defer statement")
	args := []ast.Expr{&ast.Ident{Name: "a0"}, &ast.Ident{Name: "a1"}}
	vhArgExprs = map[ast.Expr]*Expr{
		args[0]: exprX1(vhTypeOf(m), func(env *Env) xr.Value { return xr.ValueOf(m) }),
		args[1]: exprFun(vhTypeOf(key), func(env *Env) uint8 { return key }),
	}
	node := &ast.CallExpr{Fun: &ast.Ident{Name: "delete"}, Args: args}
	cerr := false
	func() {
		defer func() {
			if recover() != nil {
				cerr = true
			}
		}()
		switch which {
		case 0:
			vhPreparedCall = compileDelete(c, Symbol{Bind: Bind{Name: "delete"}}, node)
		case 1:
			vhArgExprs[args[0]] = exprX1(vhTypeOf(dst), func(env *Env) xr.Value { return xr.ValueOf(dst) })
			vhArgExprs[args[1]] = exprX1(vhTypeOf(src), func(env *Env) xr.Value { return xr.ValueOf(src) })
			vhPreparedCall = compileCopy(c, Symbol{Bind: Bind{Name: "copy"}}, node)
		default:
			vhPreparedCall = compileRecover(c, Symbol{Bind: Bind{Name: "recover"}}, &ast.CallExpr{Fun: &ast.Ident{Name: "recover"}})
		}
		vhPreparedCall.Builtin = true
		c.Defer(&ast.DeferStmt{Call: node})
	}()
	vhAssert(!cerr, "defer of a builtin compiles")
	if cerr {
		return
	}
	// the rest of the body changes what the arguments were computed from, then optionally panics
	c.append(vhPlainStmt(func(env *Env) {
		key = k1 + k2 + 1 // differs from the key at defer time unless it wraps onto it: irrelevant, the map is checked below
		src = []int32{-1, -2}
		if bodyPanics {
			panic("boom")
		}
	}))
	f := c.Code.Exec()
	rec := vhRunRecover(func() { f(&Env{Run: run}) })
	switch which {
	case 0:
		vhAssert((rec != nil) == bodyPanics, "the deferred delete neither raises nor stops a panic")
		_, has1 := m[k1]
		_, has2 := m[k2]
		vhAssert(has1 == (keyAtDefer != k1) && has2 == (keyAtDefer != k2), "delete(m, k) runs at function exit with the key evaluated at the defer statement")
	case 1:
		vhAssert((rec != nil) == bodyPanics, "the deferred copy neither raises nor stops a panic")
		vhAssert(dst[0] == want0 && dst[1] == want1, "copy(dst, src) runs at function exit with the source slice evaluated at the defer statement")
	default:
		vhAssert((rec != nil) == bodyPanics, "defer recover() does not stop the panic: recover is not called by a deferred function")
	}
	vhReach("end")
}
