package PKG

// C07: defer / panic / recover bookkeeping.   C12: state after an evaluation aborted by a panic.

import (
	"go/token"

	"github.com/cosmos72/gomacro/base"
	xr "github.com/cosmos72/gomacro/xreflect"
)

func vhNewRun() *Run { return &Run{IrGlobals: &IrGlobals{}} }

// ---- recover(): honoured exactly when called by a deferred function of the panicking function ----

func VH_C07_recoverRule() {
	run := vhNewRun()
	envs := []*Env{nil, &Env{Run: run}, &Env{Run: run}}
	run.ExecFlags = ExecFlags(vhU8("flags"))
	pf, df := vhPick("panicking function", 3), vhPick("function whose defers run", 3)
	run.PanicFun, run.DeferOfFun = envs[pf], envs[df]
	hasValue := vhBool("panic value is non-nil")
	var val interface{}
	if hasValue {
		val = "boom"
	}
	run.Panic = val
	flags := run.ExecFlags
	caller := &Env{Run: run}
	callRecover(xr.ValueOf(caller))
	honoured := flags.IsDefer() && pf != 0 && pf == df
	if honoured {
		vhAssert(run.PanicFun == nil && run.Panic == nil, "recover() in a deferred function of the panicking function consumes the panic")
	} else {
		vhAssert(run.PanicFun == envs[pf] && run.Panic == val, "recover() anywhere else leaves the panic pending")
	}
	vhAssert(run.DeferOfFun == envs[df] && run.ExecFlags == flags, "recover() touches nothing else")
	vhReach("end")
}

// ---- function bodies as compiled code ----

func vhDeferStmt(fun func()) Stmt {
	return func(env *Env) (Stmt, *Env) {
		env.IP++
		run := env.Run
		run.InstallDefer = fun
		run.Signals.Sync = base.SigDefer
		return run.Interrupt, env
	}
}

func vhPlainStmt(f func(env *Env)) Stmt {
	return func(env *Env) (Stmt, *Env) {
		f(env)
		env.IP++
		return env.Code[env.IP], env
	}
}

func vhFunction(stmts ...Stmt) func(*Env) {
	code := &Code{List: stmts, DebugPos: make([]token.Pos, len(stmts)), WithDefers: true}
	return code.Exec()
}

// vhInterp wraps a body as an interpreted function of its own (own frame, own executor run), as the
// functions called by `defer f()` are
func vhInterp(run *Run, body func(env *Env)) func() {
	code := &Code{List: []Stmt{vhPlainStmt(body)}, DebugPos: make([]token.Pos, 1)}
	f := code.Exec()
	return func() { f(&Env{Run: run}) }
}

// a function with two defers; the body optionally panics; the second defer (runs first) optionally recovers
func VH_C07_deferOrderAndRecover() {
	run := vhNewRun()
	funenv := &Env{Run: run}
	bodyPanics := vhBool("body panics")
	recovers := vhBool("a deferred function calls recover")
	seq, d1At, d2At, bodyAt := 0, 0, 0, 0
	d1 := vhInterp(run, func(env *Env) { seq++; d1At = seq })
	d2 := vhInterp(run, func(env *Env) {
		seq++
		d2At = seq
		if recovers {
			callRecover(xr.ValueOf(env))
		}
	})
	f := vhFunction(
		vhDeferStmt(d1),
		vhDeferStmt(d2),
		vhPlainStmt(func(env *Env) {
			seq++
			bodyAt = seq
			if bodyPanics {
				panic("body")
			}
		}),
	)
	rec := vhRunRecover(func() { f(funenv) })
	vhAssert(bodyAt == 1 && d2At == 2 && d1At == 3, "deferred calls run after the body, last deferred first, also when the body panics")
	if bodyPanics && !recovers {
		vhAssert(rec == interface{}("body"), "an unrecovered panic escapes the function with its value")
	} else {
		vhAssert(rec == nil, "no panic escapes when there is none or it was recovered")
	}
	vhAssert(run.Signals.Sync == base.SigNone, "no signal left pending")
	vhReach("end")
}

// a panic raised by a deferred call replaces the pending one; recover in a nested (non-deferred) call is ignored
func VH_C07_nestedPanic() {
	run := vhNewRun()
	funenv := &Env{Run: run}
	bodyPanics := vhBool("body panics")
	deferPanics := vhBool("first-run deferred call panics")
	lastRecovers := vhBool("last-run deferred call recovers")
	d1 := vhInterp(run, func(env *Env) {
		if lastRecovers {
			callRecover(xr.ValueOf(env))
		}
	})
	d2 := vhInterp(run, func(env *Env) {
		if deferPanics {
			panic("deferred")
		}
	})
	f := vhFunction(vhDeferStmt(d1), vhDeferStmt(d2), vhPlainStmt(func(env *Env) {
		if bodyPanics {
			panic("body")
		}
	}))
	rec := vhRunRecover(func() { f(funenv) })
	switch {
	case lastRecovers:
		vhAssert(rec == nil, "the last deferred call recovers whatever panic is pending")
	case deferPanics:
		vhAssert(rec == interface{}("deferred"), "a panic in a deferred call replaces the pending panic")
	case bodyPanics:
		vhAssert(rec == interface{}("body"), "the body's panic escapes")
	default:
		vhAssert(rec == nil, "no panic")
	}
	vhReach("end")
}

// recover() called by a function that a deferred function calls (not directly deferred) must be ignored:
// the nested function body runs with its own executor, which clears the defer flag for its duration
func VH_C07_recoverNotDirectlyDeferred() {
	run := vhNewRun()
	funenv := &Env{Run: run}
	inner := vhInterp(run, func(env *Env) { callRecover(xr.ValueOf(env)) })
	d := vhInterp(run, func(env *Env) { inner() })
	f := vhFunction(vhDeferStmt(d), vhPlainStmt(func(env *Env) { panic("body") }))
	rec := vhRunRecover(func() { f(funenv) })
	vhAssert(rec == interface{}("body"), "recover() not called directly by a deferred function does not stop the panic")
	vhReach("end")
}

// ---- C12: an evaluation aborted by a panic leaves the bookkeeping as a fresh interpreter has it ----

func vhProbeAfterAbort(run *Run) {
	// probe 1: recover() outside any deferred call returns nothing and changes nothing observable
	funenv := &Env{Run: run}
	ran := 0
	probe := vhFunction(
		vhDeferStmt(vhInterp(run, func(env *Env) { ran++; callRecover(xr.ValueOf(env)) })),
		vhPlainStmt(func(env *Env) { ran++; panic("probe") }),
	)
	rec := vhRunRecover(func() { probe(funenv) })
	vhAssert(rec == nil && ran == 2, "a later evaluation can still defer, panic and recover")
	// probe 2: a later panic without recover still escapes with its own value
	probe2 := vhFunction(vhDeferStmt(vhInterp(run, func(env *Env) { ran++ })), vhPlainStmt(func(env *Env) { panic("probe2") }))
	rec2 := vhRunRecover(func() { probe2(&Env{Run: run}) })
	vhAssert(rec2 == interface{}("probe2") && ran == 3, "a later unrecovered panic escapes with its own value after running its defers")
}

func VH_C12_abortedByPanic() {
	run := vhNewRun()
	n := 1 + vhPick("statements", 6)
	k := vhPick("statement that panics", 6)
	vhAssume(k < n)
	withDefers := vhBool("function has defers")
	inDefer := vhBool("panic raised inside a deferred call")
	caller := &Env{Run: run}
	run.CurrEnv = caller
	list := make([]Stmt, 0, n+1)
	if withDefers {
		list = append(list, vhDeferStmt(vhInterp(run, func(env *Env) {
			if inDefer {
				panic("abort")
			}
		})))
	}
	for i := 0; i < n; i++ {
		i := i
		list = append(list, vhPlainStmt(func(env *Env) {
			// what nested calls do to the bookkeeping while they run
			run.CurrEnv = env
			if i == k && !(withDefers && inDefer) {
				panic("abort")
			}
		}))
	}
	code := &Code{List: list, DebugPos: make([]token.Pos, len(list)), WithDefers: withDefers}
	f := code.Exec()
	rec := vhRunRecover(func() { f(&Env{Run: run}) })
	vhAssert(rec == interface{}("abort"), "the panic aborts the evaluation")
	vhAssert(!run.ExecFlags.IsDefer() && !run.ExecFlags.StartDefer(), "defer flags are back to their top-level values")
	vhAssert(run.Signals.Sync == base.SigNone && run.Signals.Async == base.SigNone && run.Signals.Debug == base.SigNone, "no signal left pending")
	if withDefers {
		vhAssert(run.CurrEnv == caller, "the call stack is restored")
		vhAssert(run.DeferOfFun == nil, "no function is recorded as running its defers")
	}
	vhProbeAfterAbort(run)
	vhReach("end")
}

// pushDefer / popDefer restore the bookkeeping for every prior state
func VH_C12_pushPopDefer() {
	run := vhNewRun()
	run.ExecFlags = ExecFlags(vhU8("flags"))
	old := &Env{}
	olds := []*Env{nil, old}
	run.DeferOfFun = olds[vhPick("previous", 2)]
	prev := run.DeferOfFun
	flags := run.ExecFlags
	fun := &Env{}
	panicking := vhBool("panicking")
	popDefer(pushDefer(run, fun, panicking))
	vhAssert(run.DeferOfFun == prev, "the function whose defers run is restored")
	vhAssert(run.ExecFlags.IsDefer() == flags.IsDefer() && !run.ExecFlags.StartDefer(), "defer flags restored, start-defer cleared")
	vhAssert(run.ExecFlags.IsDebug() == flags.IsDebug(), "debug flag untouched")
	if panicking {
		vhAssert(run.PanicFun == fun, "the panicking function is recorded")
	}
	vhReach("end")
}
