package PKG

// C08: string indexing, slicing (2- and 3-index, strings), comma-ok map reads.

import (
	"go/ast"

	xr "github.com/cosmos72/gomacro/xreflect"
)

// vhIntOperand: a constant, a run-time function or an omitted operand (nil)
func vhIntOperand(name string, mode int, counter *int) (*Expr, int) {
	v := vhInt(name)
	switch mode {
	case 0:
		return nil, v
	case 1:
		vhAssume(v >= 0)
		return vhExprValue(vhTypeOf(v), v), v
	}
	return exprFun(vhTypeOf(v), func(env *Env) int { *counter++; return v }), v
}

func VH_C08_stringIndex() {
	s := vhStr("s", 3)
	i := vhInt("index")
	shape := vhPick("constness", 3) // 0: both variable, 1: constant string, 2: constant index
	var obj, idx *Expr
	if shape == 1 {
		obj = vhExprValue(vhTypeOf(s), s)
	} else {
		obj = exprFun(vhTypeOf(s), func(env *Env) string { return s })
	}
	if shape == 2 {
		vhAssume(i >= 0)
		idx = vhExprValue(vhTypeOf(i), i)
	} else {
		idx = exprFun(vhTypeOf(i), func(env *Env) int { return i })
	}
	c := vhComp()
	e, cerr := vhCompile(func() *Expr { return c.stringIndex(&ast.IndexExpr{}, obj, idx) })
	vhAssert(!cerr && e != nil, "compiles")
	if cerr || e == nil {
		return
	}
	fun, ok := e.Fun.(func(*Env) uint8)
	vhAssert(ok, "indexing a string yields a byte")
	if !ok {
		return
	}
	var got uint8
	panicked := false
	func() {
		defer func() {
			if recover() != nil {
				panicked = true
			}
		}()
		got = fun(&Env{})
	}()
	vhAssert(panicked == (i < 0 || i >= len(s)), "string indexing panics exactly when the index is out of range")
	if !panicked && i >= 0 && i < len(s) {
		vhAssert(got == s[i], "the selected byte is returned")
	}
	vhReach("end")
}

func VH_C08_slice2() {
	backing := []int16{vhI16("e0"), vhI16("e1"), vhI16("e2"), vhI16("e3")}
	n := vhPick("length", 4)
	s := backing[:n:3]
	nlo, nhi, nobj := 0, 0, 0
	lo, lov := vhIntOperand("lo", vhPick("lo operand", 3), &nlo)
	hi, hiv := vhIntOperand("hi", vhPick("hi operand", 3), &nhi)
	if lo == nil {
		lov = 0
	}
	if hi == nil {
		hiv = n
	}
	obj := exprX1(vhTypeOf(s), func(env *Env) xr.Value { nobj++; return xr.ValueOf(s) })
	c := vhComp()
	e, cerr := vhCompile(func() *Expr { return c.slice2(&ast.SliceExpr{}, obj, lo, hi) })
	vhAssert(!cerr && e != nil, "compiles")
	if cerr || e == nil {
		return
	}
	fun := e.AsX1()
	var got xr.Value
	panicked := false
	func() {
		defer func() {
			if recover() != nil {
				panicked = true
			}
		}()
		got = fun(&Env{})
	}()
	valid := 0 <= lov && lov <= hiv && hiv <= 3
	vhAssert(panicked == !valid, "slicing panics exactly when the bounds are invalid (0 <= lo <= hi <= cap)")
	if !panicked && valid {
		vhAssert(got.Len() == hiv-lov && got.Cap() == 3-lov, "length and capacity of the result")
		for k := 0; k < hiv-lov; k++ {
			vhAssert(got.Index(k).Int() == int64(backing[lov+k]), "the result aliases the operand's elements from lo")
		}
		vhAssert(nobj == 1, "the sliced operand is evaluated exactly once")
	}
	vhReach("end")
}

func VH_C08_slice3() {
	backing := []int16{vhI16("e0"), vhI16("e1"), vhI16("e2"), vhI16("e3")}
	s := backing[:2:4]
	n1, n2, n3 := 0, 0, 0
	lo, lov := vhIntOperand("lo", 1+vhPick("lo operand", 2), &n1)
	hi, hiv := vhIntOperand("hi", 1+vhPick("hi operand", 2), &n2)
	max, maxv := vhIntOperand("max", 1+vhPick("max operand", 2), &n3)
	obj := exprX1(vhTypeOf(s), func(env *Env) xr.Value { return xr.ValueOf(s) })
	c := vhComp()
	e, cerr := vhCompile(func() *Expr { return c.slice3(&ast.SliceExpr{}, obj, lo, hi, max) })
	vhAssert(!cerr && e != nil, "compiles")
	if cerr || e == nil {
		return
	}
	fun := e.AsX1()
	var got xr.Value
	panicked := false
	func() {
		defer func() {
			if recover() != nil {
				panicked = true
			}
		}()
		got = fun(&Env{})
	}()
	valid := 0 <= lov && lov <= hiv && hiv <= maxv && maxv <= 4
	vhAssert(panicked == !valid, "3-index slicing panics exactly when not 0 <= lo <= hi <= max <= cap")
	if !panicked && valid {
		vhAssert(got.Len() == hiv-lov && got.Cap() == maxv-lov, "length and capacity of the result")
		for k := 0; k < hiv-lov; k++ {
			vhAssert(got.Index(k).Int() == int64(backing[lov+k]), "the result aliases the operand's elements from lo")
		}
	}
	vhReach("end")
}

func VH_C08_sliceString() {
	s := vhStr("s", 3)
	nlo, nhi := 0, 0
	lo, lov := vhIntOperand("lo", vhPick("lo operand", 3), &nlo)
	hi, hiv := vhIntOperand("hi", vhPick("hi operand", 3), &nhi)
	if lo == nil {
		lov = 0
	}
	if hi == nil {
		hiv = len(s)
	}
	obj := exprFun(vhTypeOf(s), func(env *Env) string { return s })
	c := vhComp()
	e, cerr := vhCompile(func() *Expr { return c.sliceString(obj, lo, hi) })
	vhAssert(!cerr && e != nil, "compiles")
	if cerr || e == nil {
		return
	}
	fun, ok := e.Fun.(func(*Env) string)
	vhAssert(ok, "slicing a string yields a string")
	if !ok {
		return
	}
	var got string
	panicked := false
	func() {
		defer func() {
			if recover() != nil {
				panicked = true
			}
		}()
		got = fun(&Env{})
	}()
	valid := 0 <= lov && lov <= hiv && hiv <= len(s)
	vhAssert(panicked == !valid, "string slicing panics exactly when the bounds are invalid")
	if !panicked && valid {
		vhAssert(got == s[lov:hiv], "the substring is returned")
	}
	vhReach("end")
}

func VH_C08_mapCommaOk() {
	v1 := vhI32("v1")
	k1, key := vhInt("k1"), vhInt("key")
	m := map[int]int32{k1: v1}
	if vhBool("nil map") {
		m = nil
	}
	obj := exprX1(vhTypeOf(m), func(env *Env) xr.Value { return xr.ValueOf(m) })
	var idx *Expr
	if vhBool("constant key") {
		idx = vhExprValue(vhTypeOf(key), key)
	} else {
		idx = exprFun(vhTypeOf(key), func(env *Env) int { return key })
	}
	c := vhComp()
	e, cerr := vhCompile(func() *Expr { return c.mapIndex(&ast.IndexExpr{}, obj, idx) })
	vhAssert(!cerr && e != nil, "compiles")
	if cerr || e == nil {
		return
	}
	fun, ok := e.Fun.(func(*Env) (xr.Value, []xr.Value))
	vhAssert(ok, "the comma-ok form returns two values")
	if !ok {
		return
	}
	_, vs := fun(&Env{})
	want, present := m[key]
	vhAssert(len(vs) == 2 && vs[1].Bool() == present, "the flag tells whether the key is present")
	if len(vs) == 2 {
		vhAssert(int32(vs[0].Int()) == want, "the value is the stored one, or zero when absent")
	}
	vhReach("end")
}
