package PKG

// C08 builtins: the real compileAppend / compileCopy / compileLen / compileCap / compileDelete and Comp.call_builtin
// are executed on call nodes whose argument expressions are supplied by the harness (Comp.expr1 is a model that
// looks the argument node up in a table); the closure they produce is run and compared with the Go builtin.

import (
	"go/ast"
	"go/token"
	r "reflect"

	xr "github.com/cosmos72/gomacro/xreflect"
)

func vhBuiltinComp() *Comp {
	c := vhComp()
	if vhSymbolic() {
		u := &xr.Universe{}
		u.BasicTypes = make([]xr.Type, int(r.UnsafePointer)+1)
		u.BasicTypes[r.Int] = vhTypeOf(int(0))
		u.BasicTypes[r.Bool] = vhTypeOf(false)
		u.BasicTypes[r.Uint8] = vhTypeOf(uint8(0))
		u.BasicTypes[r.String] = vhTypeOf("")
		c.CompGlobals.Universe = u
	}
	return c
}

// vhBuiltinCall compiles name(args...) with the real compile function and call_builtin
func vhBuiltinCall(c *Comp, name string, ellipsis bool, compile func(c *Comp, sym Symbol, node *ast.CallExpr) *Call, args ...*Expr) (fun I, failed bool) {
	defer func() {
		if recover() != nil {
			fun, failed = nil, true
		}
	}()
	vhArgExprs = make(map[ast.Expr]*Expr)
	node := &ast.CallExpr{Fun: &ast.Ident{Name: name}}
	for _, a := range args {
		id := &ast.Ident{Name: "arg"}
		vhArgExprs[id] = a
		node.Args = append(node.Args, id)
	}
	if ellipsis {
		node.Ellipsis = token.Pos(1)
	}
	call := compile(c, Symbol{Bind: Bind{Name: name}}, node)
	return c.call_builtin(call), false
}

var vhB8 = [...]string{"e0", "e1", "e2", "e3"}

func vhTwoInt32Slices(pfx string, n, extra int) ([]int32, []int32) {
	a, b := make([]int32, n, n+extra), make([]int32, n, n+extra)
	for i := 0; i < n; i++ {
		a[i] = vhI32(pfx + vhB8[i])
		b[i] = a[i]
	}
	return a, b
}

func vhSameInt32s(a, b []int32) bool {
	if len(a) != len(b) {
		return false
	}
	for i := range a {
		if a[i] != b[i] {
			return false
		}
	}
	return true
}

func vhSliceExpr(s []int32, evals *int) *Expr {
	return exprX1(vhTypeOf(s), func(env *Env) xr.Value { *evals++; return xr.ValueOf(s) })
}

func VH_C08_builtin_copy() {
	c := vhBuiltinComp()
	dst, dst2 := vhTwoInt32Slices("d", vhPick("dst len", 3), 0)
	src, _ := vhTwoInt32Slices("s", vhPick("src len", 3), 0)
	evals := 0
	fun, failed := vhBuiltinCall(c, "copy", false, compileCopy, vhSliceExpr(dst, &evals), vhSliceExpr(src, &evals))
	vhAssert(!failed && fun != nil, "compiles")
	if failed || fun == nil {
		return
	}
	f, ok := fun.(func(*Env) int)
	vhAssert(ok, "copy(dst, src) is an expression of type int")
	if !ok {
		return
	}
	got := f(&Env{})
	want := copy(dst2, src)
	vhAssert(got == want, "copy returns the number of elements copied")
	vhAssert(vhSameInt32s(dst, dst2), "copy(dst, src) copies min(len(dst), len(src)) elements")
	vhAssert(evals == 2, "each argument is evaluated exactly once")
	vhReach("end")
}

func VH_C08_builtin_copyOverlap() {
	c := vhBuiltinComp()
	a, a2 := vhTwoInt32Slices("a", 3, 0)
	lo := vhPick("dst offset", 3)
	hi := vhPick("src offset", 3)
	evals := 0
	fun, failed := vhBuiltinCall(c, "copy", false, compileCopy, vhSliceExpr(a[lo:], &evals), vhSliceExpr(a[hi:], &evals))
	vhAssert(!failed && fun != nil, "compiles")
	if failed || fun == nil {
		return
	}
	f, ok := fun.(func(*Env) int)
	vhAssert(ok, "copy(dst, src) is an expression of type int")
	if !ok {
		return
	}
	got := f(&Env{})
	want := copy(a2[lo:], a2[hi:])
	vhAssert(got == want && vhSameInt32s(a, a2), "copy between overlapping parts of one array behaves as in Go (memmove)")
	vhReach("end")
}

func VH_C08_builtin_copyString() {
	c := vhBuiltinComp()
	n := vhPick("dst len", 3)
	dst, dst2 := make([]byte, n), make([]byte, n)
	for i := 0; i < n; i++ {
		dst[i] = vhU8("d" + vhB8[i])
		dst2[i] = dst[i]
	}
	s := vhStr("src", 3)
	constSrc := vhBool("the string is a constant")
	var src *Expr
	if constSrc {
		src = vhExprValue(vhTypeOf(s), s)
	} else {
		src = exprFun(vhTypeOf(s), func(env *Env) string { return s })
	}
	fun, failed := vhBuiltinCall(c, "copy", false, compileCopy, exprX1(vhTypeOf(dst), func(env *Env) xr.Value { return xr.ValueOf(dst) }), src)
	vhAssert(!failed && fun != nil, "compiles")
	if failed || fun == nil {
		return
	}
	f, ok := fun.(func(*Env) int)
	vhAssert(ok, "copy(dst, string) is an expression of type int")
	if !ok {
		return
	}
	got := f(&Env{})
	want := copy(dst2, s)
	vhAssert(got == want, "copy returns the number of bytes copied")
	for i := 0; i < n; i++ {
		vhAssert(dst[i] == dst2[i], "copy(dst, string) copies min(len(dst), len(string)) bytes")
	}
	vhReach("end")
}

func VH_C08_builtin_lenCap() {
	c := vhBuiltinComp()
	s, _ := vhTwoInt32Slices("s", vhPick("len", 3), vhPick("spare capacity", 3))
	evals := 0
	fl, failed1 := vhBuiltinCall(c, "len", false, compileLen, vhSliceExpr(s, &evals))
	fc, failed2 := vhBuiltinCall(c, "cap", false, compileCap, vhSliceExpr(s, &evals))
	vhAssert(!failed1 && !failed2, "compiles")
	if failed1 || failed2 {
		return
	}
	l, ok1 := fl.(func(*Env) int)
	k, ok2 := fc.(func(*Env) int)
	vhAssert(ok1 && ok2, "len and cap are expressions of type int")
	if !ok1 || !ok2 {
		return
	}
	vhAssert(l(&Env{}) == len(s), "len(s)")
	vhAssert(k(&Env{}) == cap(s), "cap(s)")
	vhAssert(evals == 2, "the argument is evaluated exactly once per call")
	vhReach("end")
}

func VH_C08_builtin_lenString() {
	c := vhBuiltinComp()
	s := vhStr("s", 3)
	fl, failed := vhBuiltinCall(c, "len", false, compileLen, exprFun(vhTypeOf(s), func(env *Env) string { return s }))
	vhAssert(!failed, "compiles")
	if failed {
		return
	}
	l, ok := fl.(func(*Env) int)
	vhAssert(ok, "len is an expression of type int")
	if ok {
		vhAssert(l(&Env{}) == len(s), "len(string)")
	}
	vhReach("end")
}

func vhTwoMapsU8I32() (map[uint8]int32, map[uint8]int32) {
	n := vhPick("entries", 3)
	a, b := map[uint8]int32{}, map[uint8]int32{}
	for i := 0; i < n; i++ {
		k, v := vhU8("k"+vhB8[i]), vhI32("v"+vhB8[i])
		a[k] = v
		b[k] = v
	}
	return a, b
}

func VH_C08_builtin_lenMap() {
	c := vhBuiltinComp()
	m, _ := vhTwoMapsU8I32()
	if vhBool("nil map") {
		m = nil
	}
	fl, failed := vhBuiltinCall(c, "len", false, compileLen, exprX1(vhTypeOf(m), func(env *Env) xr.Value { return xr.ValueOf(m) }))
	vhAssert(!failed, "compiles")
	if failed {
		return
	}
	l, ok := fl.(func(*Env) int)
	vhAssert(ok, "len is an expression of type int")
	if ok {
		vhAssert(l(&Env{}) == len(m), "len(map): number of distinct keys, 0 for a nil map")
	}
	vhReach("end")
}

func VH_C08_builtin_delete() {
	c := vhBuiltinComp()
	m, m2 := vhTwoMapsU8I32()
	k, probe := vhU8("k"), vhU8("probe")
	constKey := vhBool("constant key")
	var key *Expr
	if constKey {
		key = vhExprValue(vhTypeOf(k), k)
	} else {
		key = exprFun(vhTypeOf(k), func(env *Env) uint8 { return k })
	}
	fun, failed := vhBuiltinCall(c, "delete", false, compileDelete, exprX1(vhTypeOf(m), func(env *Env) xr.Value { return xr.ValueOf(m) }), key)
	vhAssert(!failed && fun != nil, "compiles")
	if failed || fun == nil {
		return
	}
	f, ok := fun.(func(*Env))
	vhAssert(ok, "delete is a statement")
	if !ok {
		return
	}
	f(&Env{})
	delete(m2, k)
	v1, ok1 := m[probe]
	v2, ok2 := m2[probe]
	vhAssert(len(m) == len(m2) && v1 == v2 && ok1 == ok2, "delete(m, k) removes exactly the entry of k")
	vhReach("end")
}

func VH_C08_builtin_append() {
	c := vhBuiltinComp()
	n, extra := vhPick("len", 3), vhPick("spare capacity", 3)
	s, s2 := vhTwoInt32Slices("s", n, extra)
	nadd := vhPick("appended elements", 3)
	xs := [2]int32{vhI32("x0"), vhI32("x1")}
	evals := 0
	args := []*Expr{vhSliceExpr(s, &evals)}
	for i := 0; i < nadd; i++ {
		i := i
		args = append(args, exprFun(vhTypeOf(xs[0]), func(env *Env) int32 { evals++; return xs[i] }))
	}
	fun, failed := vhBuiltinCall(c, "append", false, compileAppend, args...)
	vhAssert(!failed && fun != nil, "compiles")
	if failed || fun == nil {
		return
	}
	f, ok := fun.(func(*Env) xr.Value)
	vhAssert(ok, "append is an expression")
	if !ok {
		return
	}
	got, ok := f(&Env{}).Interface().([]int32)
	want := append(s2, xs[:nadd]...)
	vhAssert(ok && vhSameInt32s(got, want), "append(s, x...) has the contents of Go's append")
	if ok && n > 0 && len(got) > 0 {
		vhAssert((&got[0] == &s[0]) == (&want[0] == &s2[0]), "append reuses the backing array exactly when Go's append does (growth is visible through aliases)")
	}
	vhAssert(evals == 1+nadd, "each argument is evaluated exactly once")
	vhReach("end")
}

func VH_C08_builtin_appendEllipsis() {
	c := vhBuiltinComp()
	n, extra := vhPick("len", 3), vhPick("spare capacity", 3)
	s, s2 := vhTwoInt32Slices("s", n, extra)
	t, _ := vhTwoInt32Slices("t", vhPick("appended slice len", 3), 0)
	evals := 0
	fun, failed := vhBuiltinCall(c, "append", true, compileAppend, vhSliceExpr(s, &evals), vhSliceExpr(t, &evals))
	vhAssert(!failed && fun != nil, "compiles")
	if failed || fun == nil {
		return
	}
	f, ok := fun.(func(*Env) xr.Value)
	vhAssert(ok, "append is an expression")
	if !ok {
		return
	}
	got, ok := f(&Env{}).Interface().([]int32)
	want := append(s2, t...)
	vhAssert(ok && vhSameInt32s(got, want), "append(s, t...) has the contents of Go's append")
	if ok && n > 0 && len(got) > 0 {
		vhAssert((&got[0] == &s[0]) == (&want[0] == &s2[0]), "append reuses the backing array exactly when Go's append does")
	}
	vhAssert(evals == 2, "each argument is evaluated exactly once")
	vhReach("end")
}

func VH_C08_builtin_lenCapArray() {
	c := vhBuiltinComp()
	var a [3]int32
	viaPointer := vhBool("through a pointer to the array")
	evals := 0
	var arg *Expr
	if viaPointer {
		p := &a
		arg = exprX1(vhTypeOf(p), func(env *Env) xr.Value { evals++; return xr.ValueOf(p) })
	} else {
		arg = exprX1(vhTypeOf(a), func(env *Env) xr.Value { evals++; return xr.ValueOf(a) })
	}
	fl, failed1 := vhBuiltinCall(c, "len", false, compileLen, arg)
	fc, failed2 := vhBuiltinCall(c, "cap", false, compileCap, arg)
	vhAssert(!failed1 && !failed2, "compiles")
	if failed1 || failed2 {
		return
	}
	l, ok1 := fl.(func(*Env) int)
	k, ok2 := fc.(func(*Env) int)
	vhAssert(ok1 && ok2, "len and cap are expressions of type int")
	if !ok1 || !ok2 {
		return
	}
	vhAssert(l(&Env{}) == 3 && k(&Env{}) == 3, "len and cap of an array (or pointer to array) are the array length")
	vhReach("end")
}

// ---- field selectors: x.f on a struct value, a pointer to a named struct and a pointer to an unnamed struct ----

var vhFieldIndex int

// model of Comp.LookupFieldOrMethod (the xreflect field tables are outside reach): structs have the int32 fields X, Y
func vhModelLookupFieldOrMethod(c *Comp, t xr.Type, name string) (xr.StructField, bool, xr.Method, bool) {
	if t.Kind() != r.Struct {
		return xr.StructField{}, false, xr.Method{}, false
	}
	return xr.StructField{Name: name, Type: vhTypeOf(int32(0)), Index: []int{vhFieldIndex}}, true, xr.Method{}, false
}

// model of Comp.LookupMethod: the harness types have no methods
func vhModelLookupMethod(c *Comp, t xr.Type, name string) (xr.Method, int) { return xr.Method{}, 0 }

type vhNamedXY struct{ X, Y int32 }

func VH_C08_selectorField() {
	c := vhBuiltinComp()
	shape := vhPick("operand: struct value / pointer to named struct / pointer to unnamed struct", 3)
	x, y := vhI32("x"), vhI32("y")
	vhFieldIndex = vhPick("field", 2)
	var e *Expr
	switch shape {
	case 0:
		v := vhNamedXY{x, y}
		e = exprX1(vhTypeOf(v), func(env *Env) xr.Value { return xr.ValueOf(v) })
	case 1:
		p := &vhNamedXY{x, y}
		e = exprX1(vhTypeOf(p), func(env *Env) xr.Value { return xr.ValueOf(p) })
	default:
		p := &struct{ X, Y int32 }{x, y}
		e = exprX1(vhTypeOf(p), func(env *Env) xr.Value { return xr.ValueOf(p) })
	}
	id := &ast.Ident{Name: "p"}
	c.Binds = map[string]*Bind{"p": &Bind{Lit: Lit{Type: e.Type}, Desc: VarBind.MakeDescriptor(0), Name: "p"}}
	vhArgExprs = map[ast.Expr]*Expr{id: e}
	node := &ast.SelectorExpr{X: id, Sel: &ast.Ident{Name: [...]string{"X", "Y"}[vhFieldIndex]}}
	var fe *Expr
	failed := false
	func() {
		defer func() {
			if recover() != nil {
				failed = true
			}
		}()
		fe = c.SelectorExpr(node)
	}()
	vhAssert(!failed && fe != nil, "x.f compiles for a struct, a pointer to a named struct and a pointer to an unnamed struct")
	if failed || fe == nil {
		return
	}
	f, ok := fe.Fun.(func(*Env) int32)
	vhAssert(ok, "the field expression has the field's type")
	if !ok {
		return
	}
	want := [...]int32{x, y}[vhFieldIndex]
	vhAssert(f(&Env{}) == want, "x.f reads the selected field (through the pointer)")
	vhReach("end")
}
