package PKG

// Helpers shared by the harnesses that live in package fast.

import (
	"go/ast"
	"go/constant"
	"go/token"
	r "reflect"

	xr "github.com/cosmos72/gomacro/xreflect"
)

var vhNativeInterp *Interp

// vhComp returns the compiler object the harness drives: a bare Comp under the engine (error
// reporting is stubbed), the real top-level compiler natively.
func vhComp() *Comp {
	if vhSymbolic() {
		return &Comp{CompGlobals: &CompGlobals{IrGlobals: &IrGlobals{}}}
	}
	if vhNativeInterp == nil {
		vhNativeInterp = New()
	}
	return vhNativeInterp.Comp
}

// vhTypeOf is intercepted by the engine (typed-cell model); natively it asks the real universe.
func vhTypeOf(x interface{}) xr.Type {
	return vhComp().TypeOf(x)
}

func vhExprValue(t xr.Type, v interface{}) *Expr {
	return &Expr{Lit: Lit{Type: t, Value: v}}
}

// vhCompile runs a compile step and reports whether it raised a compile error (panic).
func vhCompile(f func() *Expr) (e *Expr, failed bool) {
	defer func() {
		if recover() != nil {
			e, failed = nil, true
		}
	}()
	return f(), false
}

func vhKind(e *Expr) r.Kind { return e.Type.Kind() }

// vhConstFloatOK: the values a typed floating-point constant can have (finite, not negative zero).
func vhConstFloatOK(f float64) bool {
	return f == f && f-f == 0 && (f != 0 || 1/f > 0)
}

const vhSlots = 3

// vhEnvChain builds frames e0 (innermost) ... e_d (top) with symbolic Ints; FileEnv = e_{d-1}
// (frame invariant: FileEnv is Depth-1 Outer hops away).
func vhEnvChain(d int) []*Env {
	envs := make([]*Env, d+1)
	for j := 0; j <= d; j++ {
		envs[j] = &Env{}
		envs[j].Ints = make([]uint64, vhSlots)
		envs[j].Vals = make([]xr.Value, vhSlots)
		for i := 0; i < vhSlots; i++ {
			envs[j].Ints[i] = vhU64("slot")
		}
	}
	for j := 0; j <= d; j++ {
		if j < d {
			envs[j].Outer = envs[j+1]
		}
		envs[j].FileEnv = envs[d-1]
	}
	return envs
}

func vhCompileStmt(f func() Stmt) (s Stmt, failed bool) {
	defer func() {
		if recover() != nil {
			s, failed = nil, true
		}
	}()
	return f(), false
}

// vhRunStmt executes one compiled statement the way the executor does: as env.Code[0] followed by a
// marker statement.  ok = the statement advanced IP by one, returned the next statement and the same env.
func vhRunStmt(stmt Stmt, env *Env) (ok bool, panicked bool) {
	if stmt == nil {
		return true, false // statement optimised away: nothing to execute
	}
	defer func() {
		if recover() != nil {
			ok, panicked = false, true
		}
	}()
	hit := false
	next := func(env *Env) (Stmt, *Env) {
		hit = true
		return nil, env
	}
	env.Code = []Stmt{stmt, next}
	env.IP = 0
	s, e := stmt(env)
	if e != env || env.IP != 1 || s == nil {
		return false, false
	}
	s(e)
	return hit, false
}

// model of Comp.expr1 for harnesses that hand sub-expressions to a real statement / call compiler: the argument node is
// looked up in a table filled by the harness
var vhArgExprs map[ast.Expr]*Expr

func vhModelExpr1(c *Comp, in ast.Expr, t xr.Type) *Expr { return vhArgExprs[in] }

// ---- native implementations of the go/constant intrinsics (the engine intercepts them by name) ----

func vhConstInt(name string) constant.Value {
	e := vhNext("bigint")
	s := e.Val
	neg := false
	if len(s) > 0 && s[0] == '-' {
		neg, s = true, s[1:]
	}
	v := constant.MakeFromLiteral(s, token.INT, 0)
	if neg {
		v = constant.UnaryOp(token.SUB, v, 0)
	}
	return v
}

func vhConstFits(v constant.Value, lo int64, hi uint64) bool {
	return constant.Compare(constant.MakeInt64(lo), token.LEQ, v) && constant.Compare(v, token.LEQ, constant.MakeUint64(hi))
}

func vhConstLow64(v constant.Value) uint64 {
	if i, ok := constant.Int64Val(v); ok {
		return uint64(i)
	}
	u, _ := constant.Uint64Val(v)
	return u
}

func vhConstEqI64(v constant.Value, i int64) bool {
	return v.Kind() == constant.Int && constant.Compare(v, token.EQL, constant.MakeInt64(i))
}

func vhConstKind(v constant.Value) int { return int(v.Kind()) }

