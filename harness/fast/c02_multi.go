package PKG

// C02: multi-assignment (a, b = b, a and friends): assign2 and assignMulti.

import (
	"unsafe"

	xr "github.com/cosmos72/gomacro/xreflect"
)

// vhCompileOne runs a compile step that appends exactly one statement to c.Code and returns it.
func vhCompileOne(c *Comp, f func()) (s Stmt, failed bool) {
	defer func() {
		if recover() != nil {
			s, failed = nil, true
		}
	}()
	n := len(c.Code.List)
	f()
	if len(c.Code.List) != n+1 {
		return nil, true
	}
	return c.Code.List[n], false
}

// two boxed int32 variables a (slot 0) and b (slot 1) of the current frame; a, b = b, a
func VH_C02_Multi_swapVars() {
	c := vhComp()
	c.Depth = 1
	envs := vhEnvChain(1)
	env := envs[0]
	a, b := vhI32("a"), vhI32("b")
	olda, oldb := a, b
	env.Vals[0] = xr.ValueOf(&a).Elem()
	env.Vals[1] = xr.ValueOf(&b).Elem()
	var zero int32
	t := vhTypeOf(zero)
	va := &Place{Var: Var{Upn: 0, Desc: VarBind.MakeDescriptor(0), Type: t, Name: "a"}}
	vb := &Place{Var: Var{Upn: 0, Desc: VarBind.MakeDescriptor(1), Type: t, Name: "b"}}
	assign := make([]Assign, 2)
	assign[0].init(c, va)
	assign[1].init(c, vb)
	n0, n1 := 0, 0
	// the right-hand sides read the variables themselves: they return the settable cells
	efuns := []func(*Env) xr.Value{
		func(env *Env) xr.Value { n0++; return env.Vals[1] },
		func(env *Env) xr.Value { n1++; return env.Vals[0] },
	}
	stmt, cerr := vhCompileOne(c, func() { c.assign2(assign, efuns) })
	vhAssert(!cerr, "compiles to one statement")
	if cerr {
		return
	}
	ok, panicked := vhRunStmt(stmt, env)
	vhAssert(!panicked && ok, "runs, advances IP by one")
	vhAssert(a == oldb && b == olda, "a, b = b, a swaps")
	vhAssert(n0 == 1 && n1 == 1, "each right-hand side evaluated exactly once")
	vhReach("end")
}

// a (integer slot, one frame up) , *p  =  e0, e1   with order log
func VH_C02_Multi_varAndPointer() {
	c := vhComp()
	c.Depth = 2
	envs := vhEnvChain(2)
	env := envs[0]
	cell := vhI16("cell")
	var z64 int64
	var z16 int16
	va := &Place{Var: Var{Upn: 1, Desc: IntBind.MakeDescriptor(1), Type: vhTypeOf(z64), Name: "a"}}
	seq, pAt, e0At, e1At, np := 0, 0, 0, 0, 0
	pp := &Place{Var: Var{Type: vhTypeOf(z16)}, Fun: func(env *Env) xr.Value { np++; seq++; pAt = seq; return xr.ValueOf(&cell).Elem() }}
	first := vhBool("pointer place first")
	places := []*Place{va, pp}
	if first {
		places = []*Place{pp, va}
	}
	assign := make([]Assign, 2)
	assign[0].init(c, places[0])
	assign[1].init(c, places[1])
	x, y := vhI64("x"), vhI16("y")
	fx := func(env *Env) xr.Value { seq++; e0At = seq; return xr.ValueOf(x) }
	fy := func(env *Env) xr.Value { seq++; e1At = seq; return xr.ValueOf(y) }
	efuns := []func(*Env) xr.Value{fx, fy}
	if first {
		efuns = []func(*Env) xr.Value{fy, fx}
	}
	before := [][]uint64{{envs[0].Ints[0], envs[0].Ints[1], envs[0].Ints[2]}, {envs[1].Ints[0], envs[1].Ints[1], envs[1].Ints[2]}}
	stmt, cerr := vhCompileOne(c, func() { c.assign2(assign, efuns) })
	vhAssert(!cerr, "compiles to one statement")
	if cerr {
		return
	}
	ok, panicked := vhRunStmt(stmt, env)
	vhAssert(!panicked && ok, "runs, advances IP by one")
	vhAssert(int64(envs[1].Ints[1]) == x, "variable one frame up receives its value")
	vhAssert(cell == y, "pointer target receives its value")
	vhAssert(np == 1, "place operand evaluated exactly once")
	vhAssert(pAt < e0At && pAt < e1At, "place operands are evaluated before the right-hand sides")
	if first {
		vhAssert(e1At < e0At, "right-hand sides evaluated left to right")
	} else {
		vhAssert(e0At < e1At, "right-hand sides evaluated left to right")
	}
	for j := 0; j < 2; j++ {
		for i := 0; i < 3; i++ {
			if j == 1 && i == 1 {
				continue
			}
			vhAssert(envs[j].Ints[i] == before[j][i], "other slots unchanged")
		}
	}
	vhReach("end")
}

// three places: boxed var, map element, pointer; right-hand sides read the places (rotation)
func VH_C02_Multi_three() {
	c := vhComp()
	c.Depth = 1
	envs := vhEnvChain(1)
	env := envs[0]
	a := vhU8("a")
	olda := a
	env.Vals[2] = xr.ValueOf(&a).Elem()
	k1, key := vhInt("k1"), vhInt("key")
	v1 := vhU8("v1")
	m := map[int]uint8{k1: v1}
	cell := vhU8("cell")
	oldcell := cell
	var z8 uint8
	t := vhTypeOf(z8)
	seq, mAt, kAt, pAt, r0, r1, r2, nm, nk, np := 0, 0, 0, 0, 0, 0, 0, 0, 0, 0
	pa := &Place{Var: Var{Upn: 0, Desc: VarBind.MakeDescriptor(2), Type: t, Name: "a"}}
	pm := &Place{Var: Var{Type: t}, MapType: vhTypeOf(m),
		Fun:    func(env *Env) xr.Value { nm++; seq++; mAt = seq; return xr.ValueOf(m) },
		MapKey: func(env *Env) xr.Value { nk++; seq++; kAt = seq; return xr.ValueOf(key) }}
	pp := &Place{Var: Var{Type: t}, Fun: func(env *Env) xr.Value { np++; seq++; pAt = seq; return xr.ValueOf(&cell).Elem() }}
	assign := make([]Assign, 3)
	assign[0].init(c, pa)
	assign[1].init(c, pm)
	assign[2].init(c, pp)
	oldm, _ := m[key]
	// a, m[key], *p = *p, a, m[key]
	efuns := []func(*Env) xr.Value{
		func(env *Env) xr.Value { seq++; r0 = seq; return xr.ValueOf(&cell).Elem() },
		func(env *Env) xr.Value { seq++; r1 = seq; return env.Vals[2] },
		func(env *Env) xr.Value { seq++; r2 = seq; return xr.ValueOf(m[key]) },
	}
	stmt, cerr := vhCompileOne(c, func() { c.assignMulti(assign, efuns, nil) })
	vhAssert(!cerr, "compiles to one statement")
	if cerr {
		return
	}
	ok, panicked := vhRunStmt(stmt, env)
	vhAssert(!panicked && ok, "runs, advances IP by one")
	vhAssert(a == oldcell, "first place receives the old value of the third")
	got, present := m[key]
	vhAssert(present && got == olda, "map element receives the old value of the first")
	vhAssert(cell == oldm, "third place receives the old value of the map element")
	vhAssert(nm == 1 && nk == 1 && np == 1, "map, key and pointer operands evaluated exactly once")
	vhAssert(mAt < kAt && kAt < pAt, "place operands evaluated left to right")
	vhAssert(pAt < r0 && r0 < r1 && r1 < r2, "all place operands before the right-hand sides, which run left to right")
	if key != k1 {
		w, p2 := m[k1]
		vhAssert(p2 && w == v1, "other map entries unchanged")
	}
	vhReach("end")
}

// `i, j := e0, e1` where i already exists in the scope (a short variable declaration that re-declares i assigns to it):
// both expressions are evaluated before either variable is set, so `i, j := 7, i` gives j the old i.
// The real Comp.DeclVars0 compiles the declaration (the initialisers are harness closures; e1 reads i's slot) and the
// emitted statements are run in order.
func VH_C02_defineRedeclares() {
	c := vhComp()
	var zero int
	t := vhTypeOf(zero)
	c.IntBindNum, c.BindNum = 1, 0
	old := &Bind{Lit: Lit{Type: t}, Desc: IntBind.MakeDescriptor(0), Name: "i"}
	c.Binds = map[string]*Bind{"i": old}
	a, i0 := vhInt("a"), vhInt("old i")
	env := &Env{Run: &Run{IrGlobals: &IrGlobals{}}}
	env.Ints, env.Vals = make([]uint64, 4), make([]xr.Value, 4)
	*(*int)(unsafe.Pointer(&env.Ints[0])) = i0
	readI := func(*Env) int { return *(*int)(unsafe.Pointer(&env.Ints[0])) }
	swapped := vhBool("the re-declared variable comes second")
	names := []string{"i", "j"}
	inits := []*Expr{exprFun(t, func(*Env) int { return a }), exprFun(t, readI)}
	if swapped {
		names = []string{"j", "i"}
		inits = []*Expr{exprFun(t, readI), exprFun(t, func(*Env) int { return a })}
	}
	failed := false
	func() {
		defer func() {
			if recover() != nil {
				failed = true
			}
		}()
		c.DeclVars0(names, nil, inits, nil)
	}()
	vhAssert(!failed, "compiles")
	if failed {
		return
	}
	bi, bj := c.Binds["i"], c.Binds["j"]
	vhAssert(bi != nil && bj != nil && bi.Desc.Class() == IntBind && bj.Desc.Class() == IntBind, "both variables are bound")
	if bi == nil || bj == nil {
		return
	}
	ii, ij := bi.Desc.Index(), bj.Desc.Index()
	vhAssert(ii != ij && ii >= 0 && ij >= 0 && ii < 4 && ij < 4, "distinct slots")
	list := c.Code.List
	sentinel := func(e *Env) (Stmt, *Env) { return nil, e }
	env.Code = append(append([]Stmt{}, list...), sentinel)
	env.IP = 0
	st := env.Code[0]
	for steps := 0; st != nil && steps < 8; steps++ {
		st, _ = st(env)
	}
	gotI := *(*int)(unsafe.Pointer(&env.Ints[ii]))
	gotJ := *(*int)(unsafe.Pointer(&env.Ints[ij]))
	vhAssert(gotI == a, "the re-declared variable gets its new value")
	vhAssert(gotJ == i0, "the other variable gets the value the re-declared one had before the statement")
	vhReach("end")
}

// _, b = e0, e1 / a, _ = e0, e1 / _, _ = e0, e1 / _, *p = e0, e1: a blank place is not assigned, both right-hand sides are
// still evaluated exactly once, the other place receives its value
func VH_C02_Multi_blank() {
	c := vhComp()
	c.Depth = 1
	envs := vhEnvChain(1)
	env := envs[0]
	b := vhI32("b")
	env.Vals[1] = xr.ValueOf(&b).Elem()
	cell := vhI32("cell")
	var zero int32
	t := vhTypeOf(zero)
	blank := func() *Place { return &Place{Var: Var{Upn: 0, Desc: VarBind.MakeDescriptor(NoIndex), Type: t, Name: "_"}} }
	vb := &Place{Var: Var{Upn: 0, Desc: VarBind.MakeDescriptor(1), Type: t, Name: "b"}}
	pp := &Place{Var: Var{Type: t}, Fun: func(env *Env) xr.Value { return xr.ValueOf(&cell).Elem() }}
	shape := vhPick("_, b / b, _ / _, _ / _, *p / *p, _", 5)
	places := [][]*Place{{blank(), vb}, {vb, blank()}, {blank(), blank()}, {blank(), pp}, {pp, blank()}}[shape]
	assign := make([]Assign, 2)
	assign[0].init(c, places[0])
	assign[1].init(c, places[1])
	x, y := vhI32("x"), vhI32("y")
	n0, n1 := 0, 0
	efuns := []func(*Env) xr.Value{
		func(env *Env) xr.Value { n0++; return xr.ValueOf(x) },
		func(env *Env) xr.Value { n1++; return xr.ValueOf(y) },
	}
	oldb, oldcell := b, cell
	stmt, cerr := vhCompileOne(c, func() { c.assign2(assign, efuns) })
	vhAssert(!cerr, "compiles to one statement")
	if cerr {
		return
	}
	ok, panicked := vhRunStmt(stmt, env)
	vhAssert(!panicked && ok, "runs, advances IP by one")
	vhAssert(n0 == 1 && n1 == 1, "each right-hand side evaluated exactly once")
	wantb, wantcell := oldb, oldcell
	switch shape {
	case 0:
		wantb = y
	case 1:
		wantb = x
	case 3:
		wantcell = y
	case 4:
		wantcell = x
	}
	vhAssert(b == wantb && cell == wantcell, "the non-blank place receives its value, nothing else changes")
	vhReach("end")
}
