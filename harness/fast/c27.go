package PKG

// C27: the REPL's line counter.  At the moment the parser is initialised for a chunk, Globals.Line must be the
// number of newlines in all input before the first byte of the text handed to the parser; after the
// chunk it must have grown by the newlines of the whole chunk.

import (
	"strings"

	"github.com/cosmos72/gomacro/ast2"
	"github.com/cosmos72/gomacro/base"
	xr "github.com/cosmos72/gomacro/xreflect"
)

var (
	vhChunkPrefix, vhChunkRest string // next chunk returned by the reader: leading comments, then code
	vhChunkEOF                 bool
	vhParsedSrc                string
	vhParsedAtLine             int
	vhParses                   int
	vhParseGlobals             *base.Globals
)

// models installed with PropConfig.Redirect (everything that is not line bookkeeping)
func vhModelReadMultiline(g *base.Globals, opts base.ReadOptions, prompt string) (string, int) {
	if vhChunkEOF {
		return "", -1
	}
	if len(vhChunkRest) == 0 {
		return vhChunkPrefix, -1 // comments only
	}
	return vhChunkPrefix + vhChunkRest, len(vhChunkPrefix)
}

func vhModelParse(c *Comp, src string) ast2.Ast {
	vhParses++
	vhParsedSrc = src
	vhParsedAtLine = vhParseGlobals.Line // what parser.Init(g.Fileset, g.Filepath, g.Line, src) receives
	return nil
}

// vhCmdConsumes: the chunk is a ':command' or a package clause that Interp.Cmd handles completely
var vhCmdConsumes bool

func vhModelCmd(ir *Interp, src string) (string, base.CmdOpt) {
	if vhCmdConsumes {
		return "", 0
	}
	return src, 0
}
func vhModelRunExpr(ir *Interp, e *Expr) ([]xr.Value, []xr.Type) { return nil, nil }
func vhModelPrint(g *base.Globals, values []xr.Value, types []xr.Type) {}

func vhReplWorld() *Interp {
	c := vhComp()
	vhParseGlobals = &c.Globals
	vhParses = 0
	return &Interp{Comp: c, env: &Env{Run: &Run{IrGlobals: c.IrGlobals}}}
}

func vhNL(s string) int { return strings.Count(s, "\n") }

// one REPL iteration on a chunk made of a comment prefix and code
func VH_C27_replChunk() {
	ir := vhReplWorld()
	g := &ir.Comp.Globals
	line0 := vhInt("lines consumed before the chunk")
	vhAssume(line0 >= 0 && line0 < 1<<40)
	g.Line = line0
	vhChunkPrefix = vhStrRange("comment prefix", 6, '\n', '/')
	vhChunkRest = vhStrRange("code", 4, '\n', 'z')
	vhChunkEOF = false
	vhAssume(len(vhChunkRest) > 0 && vhChunkRest[0] > ' ') // the chunk has code, and it starts at the first token
	again := ir.ReadParseEvalPrint()
	vhAssert(again, "the REPL continues")
	vhAssert(vhParses == 1, "the chunk is parsed once")
	if vhParses == 1 {
		// the parser must be given the chunk from the start of some line at or before the first token,
		// together with the true line number of that line: then lines *and columns* of all tokens are true
		full := vhChunkPrefix + vhChunkRest
		cut := len(full) - len(vhParsedSrc)
		vhAssert(cut >= 0 && cut <= len(vhChunkPrefix), "the parser receives the chunk from a point at or before the first token")
		if cut >= 0 && cut <= len(vhChunkPrefix) {
			vhAssert(full[cut:] == vhParsedSrc, "the parser receives a suffix of the chunk")
			vhAssert(cut == 0 || full[cut-1] == '\n', "the parsed text starts at the beginning of a line, so columns are preserved")
			vhAssert(vhParsedAtLine == line0+vhNL(full[:cut]), "the first token is reported at its true line")
		}
	}
	vhAssert(g.Line == line0+vhNL(vhChunkPrefix)+vhNL(vhChunkRest), "afterwards the counter has advanced by the newlines of the chunk")
	vhReach("end")
}

// a chunk consumed by a REPL command or package clause is not parsed but its lines still count
func VH_C27_replCommandChunk() {
	ir := vhReplWorld()
	g := &ir.Comp.Globals
	line0 := vhInt("lines consumed before the chunk")
	vhAssume(line0 >= 0 && line0 < 1<<40)
	g.Line = line0
	vhChunkPrefix = vhStrRange("comment prefix", 4, '\n', '/')
	vhChunkRest = vhStrRange("command", 4, '\n', 'z')
	vhChunkEOF = false
	vhAssume(len(vhChunkRest) > 0 && vhChunkRest[0] > ' ')
	vhCmdConsumes = true
	defer func() { vhCmdConsumes = false }()
	again := ir.ReadParseEvalPrint()
	vhAssert(again, "the REPL continues")
	vhAssert(vhParses == 0, "a chunk handled by a command is not parsed")
	vhAssert(g.Line == line0+vhNL(vhChunkPrefix)+vhNL(vhChunkRest), "its lines are still counted")
	vhReach("end")
}

// a chunk holding only comments is skipped but still counted
func VH_C27_replCommentOnly() {
	ir := vhReplWorld()
	g := &ir.Comp.Globals
	line0 := vhInt("lines consumed before the chunk")
	vhAssume(line0 >= 0 && line0 < 1<<40)
	g.Line = line0
	vhChunkPrefix = vhStrRange("comment", 8, '\n', '/')
	vhChunkRest = ""
	vhChunkEOF = false
	vhAssume(len(vhChunkPrefix) > 0)
	again := ir.ReadParseEvalPrint()
	vhAssert(again, "the REPL continues after a comment-only chunk")
	vhAssert(vhParses == 0, "nothing is parsed")
	vhAssert(g.Line == line0+vhNL(vhChunkPrefix), "the comment's newlines are counted once")
	vhReach("end")
}

func VH_C27_replEOF() {
	ir := vhReplWorld()
	g := &ir.Comp.Globals
	line0 := vhInt("lines")
	g.Line = line0
	vhChunkEOF = true
	again := ir.ReadParseEvalPrint()
	vhAssert(!again && g.Line == line0 && vhParses == 0, "end of input stops the REPL and changes nothing")
	vhReach("end")
}

// two chunks in a row: the error position of the second chunk's first token
func VH_C27_replTwoChunks() {
	ir := vhReplWorld()
	g := &ir.Comp.Globals
	g.Line = 0
	p1 := vhStrRange("prefix1", 2, '\n', '/')
	r1 := vhStrRange("code1", 2, '\n', 'z')
	p2 := vhStrRange("prefix2", 3, '\n', '/')
	r2 := vhStrRange("code2", 2, '\n', 'z')
	vhAssume(len(r1) > 0 && r1[0] > ' ' && len(r2) > 0 && r2[0] > ' ')
	vhChunkEOF = false
	vhChunkPrefix, vhChunkRest = p1, r1
	ir.ReadParseEvalPrint()
	vhChunkPrefix, vhChunkRest = p2, r2
	ir.ReadParseEvalPrint()
	full := p2 + r2
	cut := len(full) - len(vhParsedSrc)
	vhAssert(cut >= 0 && cut <= len(p2), "the parser receives the second chunk from a point at or before its first token")
	if cut >= 0 && cut <= len(p2) {
		vhAssert(full[cut:] == vhParsedSrc && (cut == 0 || full[cut-1] == '\n'), "the parsed text is a suffix of the chunk starting at the beginning of a line")
		vhAssert(vhParsedAtLine == vhNL(p1)+vhNL(r1)+vhNL(full[:cut]), "the first token of the second chunk is reported at its true line")
	}
	vhReach("end")
}

// EvalReader-style first chunk: the comments are cut off and counted, the rest is evaluated
func VH_C27_firstChunkOfReader() {
	ir := vhReplWorld()
	g := &ir.Comp.Globals
	g.Line = 0
	comments := vhStrRange("leading comments", 6, '\n', '/')
	rest := vhStrRange("code", 6, '\n', 'z')
	vhAssume(len(rest) > 0 && rest[0] > ' ')
	// what EvalReader does with the first chunk
	str, firstToken := comments+rest, len(comments)
	if firstToken > 0 {
		str = str[firstToken:]
		g.IncLine(comments)
	}
	ir.ParseEvalPrint(str)
	vhAssert(vhParses == 1 && vhParsedSrc == rest && vhParsedAtLine == vhNL(comments), "the code after the leading comments is parsed from its true line")
	vhAssert(g.Line == vhNL(comments)+vhNL(rest), "afterwards the counter has advanced by the newlines of the chunk")
	vhReach("end")
}
