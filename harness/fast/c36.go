package PKG

// C36 (in part): completion of a single word: sorted, duplicate-free, exactly the names in scope and keywords with the prefix.

import (
	"strings"

	xr "github.com/cosmos72/gomacro/xreflect"
)

func vhCName(what string) string { return vhStrRange(what, 2, 'a', 'b') }

func vhSortModel(vec []string) {
	for i := 1; i < len(vec); i++ {
		for j := i; j > 0 && vec[j] < vec[j-1]; j-- {
			vec[j], vec[j-1] = vec[j-1], vec[j]
		}
	}
}

func vhCheckSortUnique(n int) {
	in := make([]string, n)
	orig := make([]string, n)
	for i := range in {
		in[i] = vhCName("name")
		orig[i] = in[i]
	}
	out := sortUnique(in)
	for i := 1; i < len(out); i++ {
		vhAssert(out[i-1] < out[i], "the result is strictly increasing: sorted and without duplicates")
	}
	for i := range orig {
		found := false
		for j := range out {
			if out[j] == orig[i] {
				found = true
			}
		}
		vhAssert(found, "every input name is in the result")
	}
	for j := range out {
		found := false
		for i := range orig {
			if out[j] == orig[i] {
				found = true
			}
		}
		vhAssert(found, "every result is one of the input names")
	}
	vhReach("end")
}

func VH_C36_sortUnique0() { vhCheckSortUnique(0) }
func VH_C36_sortUnique1() { vhCheckSortUnique(1) }
func VH_C36_sortUnique2() { vhCheckSortUnique(2) }
func VH_C36_sortUnique3() { vhCheckSortUnique(3) }
func VH_C36_sortUnique4() { vhCheckSortUnique(4) }
func VH_C36_T_sortUnique5() { vhCheckSortUnique(5) }

func VH_C36_completeWord() {
	vhUnwind(60)
	saved := keywords
	defer func() { keywords = saved }()
	keywords = []string{"a", "ab", "break"}
	outer := vhComp()
	inner := &Comp{CompGlobals: outer.CompGlobals, Outer: outer}
	names := []string{vhCName("inner variable"), vhCName("inner type"), vhCName("outer variable"), vhCName("outer variable 2")}
	for i := range names {
		vhAssume(len(names[i]) > 0)
	}
	inner.Binds = map[string]*Bind{names[0]: &Bind{}}
	inner.Types = map[string]xr.Type{names[1]: nil}
	outer.Binds = map[string]*Bind{names[2]: &Bind{}, names[3]: &Bind{}}
	word := vhCName("typed prefix")
	vhAssume(len(word) > 0)
	got := inner.completeWord(word)
	all := append(append([]string{}, names...), keywords...)
	for i := 1; i < len(got); i++ {
		vhAssert(got[i-1] < got[i], "completions are sorted and without duplicates")
	}
	for _, g := range got {
		ok := false
		for _, a := range all {
			if a == g {
				ok = true
			}
		}
		vhAssert(ok && strings.HasPrefix(g, word), "every completion is a name in scope or a keyword, and starts with the typed prefix")
	}
	for _, a := range all {
		if strings.HasPrefix(a, word) {
			found := false
			for _, g := range got {
				if g == a {
					found = true
				}
			}
			vhAssert(found, "every name in scope (inner and outer) and keyword with the prefix is offered")
		}
	}
	vhReach("end")
}

func VH_C36_completeEmptyWord() {
	c := vhComp()
	c.Binds = map[string]*Bind{"a": &Bind{}}
	vhAssert(len(c.completeWord("")) == 0, "an empty word has no completions")
	vhReach("end")
}
