package PKG

// C14: global slot growth between evaluations (pattern C: one step from an arbitrary valid state).

import (
	"github.com/cosmos72/gomacro/base"
	xr "github.com/cosmos72/gomacro/xreflect"
)

// ---- descriptors: (class, index) round trip ----

func VH_C14_descriptor() {
	classes := []BindClass{ConstBind, FuncBind, VarBind, IntBind, GenericFuncBind, GenericTypeBind}
	class := classes[vhPick("class", 6)]
	idx := vhInt("index")
	vhAssume(idx >= -1 && idx < 1<<59)
	d := class.MakeDescriptor(idx)
	vhAssert(d.Index() == idx, "descriptor keeps the index")
	vhAssert(d.Class() == class, "descriptor keeps the class")
	vhAssert(d.Settable() == (class == VarBind || class == IntBind), "settable exactly for variables")
	vhReach("end")
}

func vhKindType(k int) xr.Type {
	switch k {
	case 0:
		var z int
		return vhTypeOf(z)
	case 1:
		var z complex128
		return vhTypeOf(z)
	case 2:
		var z string
		return vhTypeOf(z)
	case 3:
		var z bool
		return vhTypeOf(z)
	case 4:
		var z float32
		return vhTypeOf(z)
	case 5:
		var z uint8
		return vhTypeOf(z)
	default:
		var z complex64
		return vhTypeOf(z)
	}
}

func vhNSlots(k int) int {
	if k == 1 {
		return 2
	}
	return 1
}

func vhIsIntKind(k int) bool { return k != 2 }

// ---- NewBind: one declaration from an arbitrary state satisfying the slot invariant ----
// invariant J: IntBindMax != 0  =>  IntBindNum <= IntBindMax     (IntBindMax = cap(Env.Ints) once an address escaped)

func VH_C14_newBind_fresh() {
	c := vhComp()
	n, max, b := vhInt("intbindnum"), vhInt("intbindmax"), vhInt("bindnum")
	vhAssume(n >= 0 && n < 1<<40 && b >= 0 && b < 1<<40 && max >= 0 && max < 1<<40)
	vhAssume(max == 0 || n <= max)
	c.IntBindNum, c.IntBindMax, c.BindNum = n, max, b
	k := vhPick("kind", 7)
	t := vhKindType(k)
	bind := c.NewBind("x", VarBind, t)
	class, idx := bind.Desc.Class(), bind.Desc.Index()
	vhAssert(class == IntBind || class == VarBind, "a variable gets a variable class")
	if class == IntBind {
		vhAssert(vhIsIntKind(k), "only bool/integer/float/complex variables live in the integer slots")
		vhAssert(idx == n, "new integer-slot variable gets the first free slot")
		vhAssert(c.IntBindNum == n+vhNSlots(k), "slot counter advances by the size of the variable (2 for complex128)")
		vhAssert(c.BindNum == b, "boxed-slot counter unchanged")
		vhAssert(max == 0 || idx+vhNSlots(k) <= max, "every slot of the variable lies below the frozen capacity")
	} else {
		vhAssert(idx == b && c.BindNum == b+1, "new boxed variable gets the next boxed slot")
		vhAssert(c.IntBindNum == n, "integer-slot counter unchanged")
		vhAssert(!vhIsIntKind(k) || (max != 0 && n+vhNSlots(k) > max), "boxed only when it is not numeric or does not fit below the frozen capacity")
	}
	vhAssert(c.IntBindMax == 0 || c.IntBindNum <= c.IntBindMax, "slot invariant preserved")
	vhAssert(c.Binds["x"] == bind, "binding registered under its name")
	vhReach("end")
}

// redefinition of an existing name: the slot is reused only when the new value fits in it
func VH_C14_newBind_redefine() {
	c := vhComp()
	n, max, b := vhInt("intbindnum"), vhInt("intbindmax"), vhInt("bindnum")
	vhAssume(n >= 2 && n < 1<<40 && b >= 1 && b < 1<<40 && max >= 0 && max < 1<<40)
	vhAssume(max == 0 || n <= max)
	c.IntBindNum, c.IntBindMax, c.BindNum = n, max, b
	kold := vhPick("oldkind", 7)
	oldIdx := vhInt("oldindex")
	told := vhKindType(kold)
	oldClass := VarBind
	if vhIsIntKind(kold) && vhBool("old in integer slots") {
		oldClass = IntBind
		vhAssume(oldIdx >= 0 && oldIdx < 1<<40 && oldIdx+vhNSlots(kold) <= n)
	} else {
		vhAssume(oldIdx >= 0 && oldIdx < b)
	}
	c.Binds = map[string]*Bind{"x": &Bind{Lit: Lit{Type: told}, Desc: oldClass.MakeDescriptor(oldIdx), Name: "x"}}
	k := vhPick("kind", 7)
	bind := c.NewBind("x", VarBind, vhKindType(k))
	class, idx := bind.Desc.Class(), bind.Desc.Index()
	if class == IntBind {
		if idx == oldIdx && oldClass == IntBind {
			vhAssert(vhNSlots(k) <= vhNSlots(kold), "a reused integer slot is large enough for the new variable")
			vhAssert(c.IntBindNum == n, "reusing a slot allocates nothing")
		} else {
			vhAssert(idx == n && c.IntBindNum == n+vhNSlots(k), "otherwise a fresh slot is allocated")
		}
		vhAssert(max == 0 || idx+vhNSlots(k) <= max || idx == oldIdx, "every slot of the variable lies below the frozen capacity")
	} else {
		vhAssert(class == VarBind, "a variable gets a variable class")
		vhAssert((idx == oldIdx && oldClass == VarBind && c.BindNum == b) || (idx == b && c.BindNum == b+1), "boxed slot reused or freshly allocated")
	}
	vhAssert(c.IntBindMax == 0 || c.IntBindNum <= c.IntBindMax, "slot invariant preserved")
	vhReach("end")
}

// ---- prepareEnv: growth of the global frame between evaluations ----

func vhPrepareState() (*Interp, *Env, []uint64, int, int) {
	capI := vhPick("capInts", 4)
	lenI := vhPick("lenInts", 4)
	vhAssume(lenI <= capI)
	capV := vhPick("capVals", 2)
	lenV := vhPick("lenVals", 2)
	vhAssume(lenV <= capV)
	env := &Env{Run: &Run{IrGlobals: &IrGlobals{}}}
	env.Ints = make([]uint64, lenI, capI)
	old := make([]uint64, lenI)
	for i := range env.Ints {
		env.Ints[i] = vhU64("slot")
		old[i] = env.Ints[i]
	}
	env.Vals = make([]xr.Value, lenV, capV)
	for i := range env.Vals {
		env.Vals[i] = xr.ValueOf(i + 100)
	}
	c := vhComp()
	ir := &Interp{Comp: c, env: env}
	return ir, env, old, lenI, lenV
}

func VH_C14_prepareEnv() {
	ir, env, old, lenI, lenV := vhPrepareState()
	c := ir.Comp
	capI := cap(env.Ints)
	taken := vhBool("address taken")
	env.IntAddressTaken = taken
	nb, ni := vhPick("bindnum", 4), vhPick("intbindnum", 7)
	vhAssume(nb >= lenV && ni >= lenI)
	c.BindNum, c.IntBindNum = nb, ni
	c.IntBindMax = vhInt("intbindmax")
	// the state prepareEnv may be called in: once an address escaped, the declared integer slots fit in the frozen array
	vhAssume(!taken || ni <= capI)
	env.Run.Signals.Sync = base.Signal(vhU8("sync"))
	env.Run.Signals.Async = base.Signal(vhU8("async"))
	dv, di := vhInt("minValDelta"), vhInt("minIntDelta")
	vhAssume(dv >= -1 && dv <= 4 && di >= -1 && di <= 8)
	var p0 *uint64
	if lenI > 0 {
		p0 = &env.Ints[0]
	}
	var failed bool
	func() {
		defer func() {
			if recover() != nil {
				failed = true
			}
		}()
		ir.prepareEnv(dv, di)
	}()
	vhAssert(!failed, "growth never fails from a valid state")
	if failed {
		return
	}
	vhAssert(len(env.Vals) >= nb && len(env.Ints) >= ni, "every declared slot exists afterwards")
	vhAssert(len(env.Vals) <= cap(env.Vals) && len(env.Ints) <= cap(env.Ints), "lengths within capacity")
	for i := 0; i < lenI; i++ {
		vhAssert(env.Ints[i] == old[i], "existing integer slots keep their values")
	}
	for i := 0; i < lenV; i++ {
		vhAssert(env.Vals[i].Int() == int64(i+100), "existing boxed slots keep their values")
	}
	for i := lenI; i < len(env.Ints); i++ {
		vhAssert(env.Ints[i] == 0, "new integer slots are zero")
	}
	if taken {
		if lenI > 0 {
			vhAssert(p0 == &env.Ints[0], "the slot array is not reallocated after an address escaped")
		}
		vhAssert(c.IntBindMax == cap(env.Ints), "capacity is frozen once an address escaped")
		vhAssert(cap(env.Ints) == capI, "frozen capacity does not change")
	}
	vhAssert(env.Run.Signals.Sync == 0 && env.Run.Signals.Async == 0, "pending signals cleared")
	vhReach("end")
}

// two-step history: address taken during one evaluation (capacity not yet frozen), then a new
// declaration in the next evaluation, then growth.
func VH_C14_declareAfterEscape() {
	ir, env, _, lenI, lenV := vhPrepareState()
	c := ir.Comp
	vhAssume(lenI >= 1) // an address can only have been taken of an existing slot
	env.IntAddressTaken = true
	c.BindNum, c.IntBindNum = lenV, lenI
	frozen := vhBool("capacity already frozen")
	if frozen {
		c.IntBindMax = cap(env.Ints)
	}
	k := vhPick("kind", 7)
	c.NewBind("x", VarBind, vhKindType(k))
	var failed bool
	func() {
		defer func() {
			if recover() != nil {
				failed = true
			}
		}()
		ir.prepareEnv(1, 1)
	}()
	if frozen {
		vhAssert(!failed, "a declaration after the capacity was frozen never forces a reallocation")
	} else {
		vhAssert(!failed, "a declaration in the evaluation right after the escape never forces a reallocation")
	}
	vhReach("end")
}
