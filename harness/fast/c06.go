package PKG

// C06: frame pool and call-stack bookkeeping (pattern C: one step from an arbitrary valid pool state).

import (
	"go/ast"
	"unsafe"

	"github.com/cosmos72/gomacro/base"
	"github.com/cosmos72/gomacro/gls"
	xr "github.com/cosmos72/gomacro/xreflect"
)

// vhThisGoroutine: 7 under the engine (where gls.GoID is the model below), the real identity natively
func vhThisGoroutine() uintptr {
	if vhSymbolic() {
		return 7
	}
	return gls.GoID()
}

var vhCurrentGoid uintptr

// model of gls.GoID (assembly): the identity of the running goroutine
func vhModelGoID() uintptr { return vhCurrentGoid }

// pool invariant I: 0 <= PoolSize <= cap; Pool[i] != nil and clean for i < PoolSize, nil above; entries distinct
func vhPoolOK(run *Run) bool {
	n := run.PoolSize
	if n < 0 || n > len(run.Pool) {
		return false
	}
	for i := 0; i < len(run.Pool); i++ {
		e := run.Pool[i]
		if i >= n {
			if e != nil {
				return false
			}
			continue
		}
		if e == nil || e.UsedByClosure || e.IntAddressTaken || e.Outer != nil || e.FileEnv != nil || e.Run != nil || e.Caller != nil || e.Code != nil {
			return false
		}
		for j := 0; j < i; j++ {
			if run.Pool[j] == e {
				return false
			}
		}
	}
	return true
}

func vhPooledFrame(capV, capI int) *Env {
	e := &Env{}
	if capV > 0 {
		e.Vals = make([]xr.Value, 0, capV)
	}
	if capI > 0 {
		e.Ints = make([]uint64, 0, capI)
	}
	return e
}

// vhPoolState: a Run whose pool holds p clean frames (p = 0, 1, 2, cap-1 or cap)
func vhPoolState() (*Run, int) {
	run := &Run{IrGlobals: &IrGlobals{}}
	vhCurrentGoid = vhThisGoroutine()
	run.goid = vhCurrentGoid
	sizes := []int{0, 1, 2, len(run.Pool) - 1, len(run.Pool)}
	p := sizes[vhPick("pool size", 5)]
	capV, capI := vhPick("pooled cap vals", 3), vhPick("pooled cap ints", 3)
	for i := 0; i < p; i++ {
		run.Pool[i] = vhPooledFrame(capV, capI)
	}
	run.PoolSize = p
	return run, p
}

func VH_C06_allocate() {
	run, p := vhPoolState()
	file := &Env{Run: run}
	caller := &Env{Run: run, CallDepth: vhInt("caller depth")}
	vhAssume(caller.CallDepth >= 0 && caller.CallDepth < 1<<40)
	hasCaller := vhBool("called from interpreted code")
	if hasCaller {
		run.CurrEnv = caller
	}
	outer := &Env{Run: run, FileEnv: file, CallDepth: vhInt("outer depth"), IP: vhInt("ip")}
	vhAssume(outer.CallDepth >= 0 && outer.CallDepth < 1<<40)
	var top *Env
	if p > 0 {
		top = run.Pool[p-1]
	}
	nb, ni := vhPick("nbind", 4), vhPick("nintbind", 4)
	which := vhPick("allocator", 3)
	var env *Env
	switch which {
	case 0:
		env = newEnv(run, outer, nb, ni)
	case 1:
		env = NewEnv(outer, nb, ni)
	default:
		env = newEnv4Func(outer, nb, ni, nil)
	}
	vhAssert(env != nil && env != outer && env != file && env != caller, "a frame distinct from every live frame is returned")
	vhAssert(len(env.Vals) == nb && len(env.Ints) == ni, "the frame has exactly the requested numbers of slots")
	vhAssert(env.Outer == outer && env.Run == run && env.FileEnv == file, "lexical parent, owner and file frame are set")
	vhAssert(!env.UsedByClosure && !env.IntAddressTaken, "a fresh frame carries no escape marks")
	if p > 0 {
		vhAssert(env == top && run.PoolSize == p-1, "a pooled frame is reused, last in first out")
	} else {
		vhAssert(run.PoolSize == 0, "an empty pool stays empty")
	}
	for i := 0; i < len(run.Pool); i++ {
		vhAssert(run.Pool[i] != env, "the frame handed out is no longer in the pool")
	}
	vhAssert(vhPoolOK(run), "pool invariant preserved")
	switch which {
	case 1:
		vhAssert(env.CallDepth == outer.CallDepth && env.Caller == nil && env.IP == outer.IP, "a nested block frame stays at its function's call depth")
		vhAssert(run.CurrEnv == env, "the new frame becomes the current one")
	case 2:
		if hasCaller {
			vhAssert(env.Caller == caller && env.CallDepth == caller.CallDepth+1, "a function frame is one call deeper than its caller")
		} else {
			vhAssert(env.Caller == nil && env.CallDepth == 1, "a function called from compiled code starts a new call stack")
		}
		vhAssert(run.CurrEnv == env, "the new frame becomes the current one")
	}
	vhReach("end")
}

func VH_C06_free() {
	run, p := vhPoolState()
	file := &Env{Run: run}
	caller := &Env{Run: run}
	outer := &Env{Run: run, FileEnv: file}
	env := &Env{Run: run, Outer: outer, FileEnv: file, Caller: caller}
	env.Vals = make([]xr.Value, 2)
	env.Ints = make([]uint64, 2)
	env.UsedByClosure = vhBool("captured by a closure")
	env.IntAddressTaken = vhBool("slot address escaped")
	ints := env.Ints
	ints[0] = 41
	escaped := env.IntAddressTaken
	which := vhPick("deallocator", 3)
	switch which {
	case 0:
		env.freeEnv(run)
	case 1:
		env.FreeEnv()
		vhAssert(run.CurrEnv == outer, "leaving a block makes its parent the current frame")
	default:
		env.freeEnv4Func()
		vhAssert(run.CurrEnv == caller, "returning from a function makes its caller the current frame")
	}
	pooled := false
	for i := 0; i < len(run.Pool); i++ {
		if run.Pool[i] == env {
			pooled = true
		}
	}
	if env.UsedByClosure {
		vhAssert(!pooled && run.PoolSize == p, "a frame captured by a closure is never recycled")
		vhAssert(env.Outer == outer && len(env.Ints) == 2 && env.Ints[0] == 41, "a captured frame keeps its parent and contents")
	} else if p == len(run.Pool) {
		vhAssert(!pooled && run.PoolSize == p, "a full pool does not overflow")
	} else {
		vhAssert(pooled && run.PoolSize == p+1 && run.Pool[p] == env, "otherwise the frame is pushed on the pool")
	}
	if pooled && escaped {
		// the escaped slot array must not be shared with the next user of the frame
		env.Ints = append(env.Ints[:0], 1, 2)
		vhAssert(ints[0] == 41, "a recycled frame no longer shares a slot array whose address escaped")
	}
	vhAssert(vhPoolOK(run), "pool invariant preserved")
	vhReach("end")
}

func VH_C06_markUsedByClosure() {
	n := 1 + vhPick("chain length", 5)
	chain := make([]*Env, n)
	for i := n - 1; i >= 0; i-- {
		chain[i] = &Env{}
		if vhBool("is a function body frame") {
			chain[i].Caller = &Env{}
		}
		if i < n-1 {
			chain[i].Outer = chain[i+1]
		}
	}
	marked := vhPick("first already-marked frame", 7)
	for i := marked; i < n; i++ {
		chain[i].UsedByClosure = true // marking is upward closed (invariant of MarkUsedByClosure itself)
	}
	chain[0].MarkUsedByClosure()
	for i := 0; i < n; i++ {
		vhAssert(chain[i].UsedByClosure, "every frame a closure can reach through Outer is marked")
	}
	vhReach("end")
}

// a frame used by another goroutine allocates from that goroutine's own pool
func VH_C06_allocateOnOtherGoroutine() {
	g := &IrGlobals{}
	g.gls = map[uintptr]*Run{}
	run1 := &Run{IrGlobals: g, goid: 7}
	run2 := &Run{IrGlobals: g, goid: 9}
	g.gls[7], g.gls[9] = run1, run2
	run1.Pool[0] = vhPooledFrame(2, 2)
	run1.PoolSize = 1
	run2.Pool[0] = vhPooledFrame(2, 2)
	run2.PoolSize = 1
	own2 := run2.Pool[0]
	vhCurrentGoid = 9
	outer := &Env{Run: run1} // a closure created by goroutine 7 ...
	env := newEnv4Func(outer, 1, 1, nil) // ... called on goroutine 9
	vhAssert(env.Run == run2, "the frame belongs to the goroutine that runs the call")
	vhAssert(env == own2 && run2.PoolSize == 0 && run1.PoolSize == 1, "it is taken from that goroutine's pool, the creator's pool is untouched")
	vhReach("end")
}

// `return e0, e1` in a function with two named results: Go evaluates every result expression before it assigns any
// result variable, so `return y, x` swaps them and `return x + 1, x` yields the old x as second result.
// The real Comp.Return compiles the statement (result expressions are harness closures that read the result slots);
// the emitted statements are then run in order.
func VH_C06_returnNamedResults() {
	c := vhComp()
	var zero int
	t := vhTypeOf(zero)
	nested := vhPick("blocks with locals between the return and the function body", 2)
	b0 := &Bind{Lit: Lit{Type: t}, Desc: IntBind.MakeDescriptor(0), Name: "x"}
	b1 := &Bind{Lit: Lit{Type: t}, Desc: IntBind.MakeDescriptor(1), Name: "y"}
	cf := &Comp{CompGlobals: c.CompGlobals}
	cf.Func = &FuncInfo{Name: "f", Result: []*Bind{b0, b1}, NamedResults: true}
	cc := cf
	if nested == 1 {
		cc = &Comp{CompGlobals: c.CompGlobals, Outer: cf, UpCost: 1}
	}
	x, y, d := vhInt("x"), vhInt("y"), vhInt("d")
	funenv := &Env{Run: &Run{IrGlobals: &IrGlobals{}}}
	funenv.Ints, funenv.Vals = make([]uint64, 2), make([]xr.Value, 2)
	*(*int)(unsafe.Pointer(&funenv.Ints[0])) = x
	*(*int)(unsafe.Pointer(&funenv.Ints[1])) = y
	env := funenv
	if nested == 1 {
		env = &Env{Outer: funenv, Run: funenv.Run}
		env.Ints, env.Vals = make([]uint64, 1), make([]xr.Value, 1)
	}
	readX := func(*Env) int { return *(*int)(unsafe.Pointer(&funenv.Ints[0])) }
	readY := func(*Env) int { return *(*int)(unsafe.Pointer(&funenv.Ints[1])) }
	n0, n1 := &ast.Ident{Name: "e0"}, &ast.Ident{Name: "e1"}
	shape := vhPick("return y, x / return x + d, x / return y, y + d", 3)
	var want0, want1 int
	vhArgExprs = make(map[ast.Expr]*Expr)
	switch shape {
	case 0:
		vhArgExprs[n0], vhArgExprs[n1] = exprFun(t, readY), exprFun(t, readX)
		want0, want1 = y, x
	case 1:
		vhArgExprs[n0], vhArgExprs[n1] = exprFun(t, func(e *Env) int { return readX(e) + d }), exprFun(t, readX)
		want0, want1 = x+d, x
	default:
		vhArgExprs[n0], vhArgExprs[n1] = exprFun(t, readY), exprFun(t, func(e *Env) int { return readY(e) + d })
		want0, want1 = y, y+d
	}
	failed := false
	func() {
		defer func() {
			if recover() != nil {
				failed = true
			}
		}()
		cc.Return(&ast.ReturnStmt{Results: []ast.Expr{n0, n1}})
	}()
	vhAssert(!failed, "compiles")
	if failed {
		return
	}
	list := cc.Code.List
	vhAssert(len(list) >= 1, "statements are emitted")
	if len(list) == 0 {
		return
	}
	sentinel := func(e *Env) (Stmt, *Env) { return nil, e }
	env.Code = append(append([]Stmt{}, list...), sentinel)
	env.Run.Interrupt = sentinel
	env.IP = 0
	st := list[0]
	for steps := 0; st != nil && steps < 8; steps++ {
		st, _ = st(env)
	}
	vhAssert(env.Run.Signals.Sync == base.SigReturn, "the return epilogue is reached")
	vhAssert(readX(nil) == want0 && readY(nil) == want1, "every result expression is evaluated before any result variable is assigned")
	vhReach("end")
}

// results named _ are still results: the function needs a slot to return them from.
// The real Comp.funcResultBinds declares the results of `func() (a T, b U)` for each naming style.
func VH_C06_resultBinds() {
	c := vhComp()
	style := vhPick("results unnamed / named / blank", 3)
	names := [][]string{{"", ""}, {"r", "s"}, {"_", "s"}}[style]
	sample := func() (int, string) { return 0, "" }
	t := vhTypeOf(sample)
	var binds []*Bind
	var funs []I
	failed := false
	func() {
		defer func() {
			if recover() != nil {
				failed = true
			}
		}()
		binds, funs = c.funcResultBinds(&ast.FuncType{}, t, names)
	}()
	vhAssert(!failed, "compiles")
	if failed {
		return
	}
	vhAssert(len(binds) == 2 && len(funs) == 2, "one binding per result")
	if len(binds) != 2 {
		return
	}
	vhAssert(binds[0].Desc.Index() != NoIndex && binds[1].Desc.Index() != NoIndex, "every result, also one named _, has a slot in the function's frame")
	vhAssert(binds[0].Desc.Class() == IntBind && binds[1].Desc.Class() == VarBind, "an int result lives in the integer slots, a string result is boxed")
	vhReach("end")
}
