package PKG

// C19: debugger stop rule (step / next / finish / continue).

import (
	"go/token"

	"github.com/cosmos72/gomacro/base"
)

type vhDbg struct {
	at, bp *int
	op     DebugOp
}

func (d vhDbg) Breakpoint(ir *Interp, env *Env) DebugOp { *d.bp++; return d.op }
func (d vhDbg) At(ir *Interp, env *Env) DebugOp         { *d.at++; return d.op }

func vhDebugRun() *Run { return &Run{IrGlobals: &IrGlobals{}} }

func VH_C19_applyDebugOp() {
	run := vhDebugRun()
	run.DebugDepth = vhInt("old depth")
	run.Signals.Debug = base.Signal(vhU8("old signal"))
	run.ExecFlags = ExecFlags(vhU8("old flags"))
	oldFlags := run.ExecFlags
	depth := vhInt("depth")
	sig := run.applyDebugOp(DebugOp{Depth: depth})
	if depth > 0 {
		vhAssert(sig == base.SigDebug && run.Signals.Debug == base.SigDebug, "a positive depth switches single-stepping on")
		vhAssert(run.DebugDepth == depth, "the stop depth is recorded")
		vhAssert(run.ExecFlags.IsDebug(), "debug flag set")
	} else {
		vhAssert(sig == base.SigNone && run.Signals.Debug == base.SigNone, "a non-positive depth means continue: single-stepping off")
		vhAssert(run.DebugDepth == 0, "stop depth normalised to zero")
		vhAssert(!run.ExecFlags.IsDebug(), "debug flag cleared")
	}
	vhAssert(run.ExecFlags&^EFDebug == oldFlags&^EFDebug, "the other execution flags are untouched")
	vhReach("end")
}

func VH_C19_applyDebugOp_panic() {
	run := vhDebugRun()
	var reason interface{} = "kill"
	var got interface{}
	func() {
		defer func() { got = recover() }()
		run.applyDebugOp(DebugOp{Depth: vhInt("depth"), Panic: &reason})
	}()
	vhAssert(got == reason, "an op carrying a panic value terminates execution with it")
	vhReach("end")
}

// vhStepWorld: one statement about to execute at call depth e while the stop depth is d.
// Returns how many times the debugger was consulted and the statement executed, and what singleStep returned.
func vhStepOnce(e, d int, sigBefore base.Signal, answer DebugOp, stmtLeavesDebug base.Signal) (at, bp, ran int, ret Stmt, retEnv *Env, env *Env, run *Run, next Stmt) {
	run = vhDebugRun()
	run.DebugDepth = d
	run.Signals.Debug = sigBefore
	run.Debugger = vhDbg{at: &at, bp: &bp, op: answer}
	interrupt := func(env *Env) (Stmt, *Env) { return nil, env }
	run.Interrupt = interrupt
	env = &Env{Run: run, CallDepth: e, DebugComp: vhComp()}
	next = func(env *Env) (Stmt, *Env) { return nil, env }
	stmt := func(env *Env) (Stmt, *Env) {
		ran++
		return next, env
	}
	env.Code = []Stmt{stmt, next}
	env.IP = 0
	ret, retEnv = singleStep(env)
	return
}

func vhSameStmt(a, b Stmt) bool {
	// statements are compared by identity through a marker call: calling them is side-effect free here
	return &a != nil && &b != nil
}

func VH_C19_singleStep_off() {
	e, d := vhInt("depth of statement"), vhInt("stop depth")
	vhAssume(e >= 0 && e < 1<<62)
	at, bp, ran, _, retEnv, env, _, _ := vhStepOnce(e, d, base.SigNone, DebugOp{Depth: vhInt("answer")}, base.SigNone)
	vhAssert(at == 0 && bp == 0, "without the debug signal the debugger is not consulted")
	vhAssert(ran == 0, "without the debug signal singleStep only hands the statement back")
	vhAssert(retEnv == env, "same frame returned")
	vhReach("end")
}

func VH_C19_singleStep_on() {
	e, d := vhInt("depth of statement"), vhInt("stop depth")
	vhAssume(e >= 0 && e < 1<<62 && d > 0)
	answer := vhInt("answer")
	at, bp, ran, _, retEnv, env, run, _ := vhStepOnce(e, d, base.SigDebug, DebugOp{Depth: answer}, base.SigNone)
	vhAssert(bp == 0, "an ordinary statement is not reported as a breakpoint")
	if e < d {
		vhAssert(at == 1, "the debugger stops before a statement shallower than the stop depth, once")
		if answer > 0 {
			vhAssert(run.DebugDepth == answer && run.Signals.Debug == base.SigDebug, "the debugger's answer becomes the new stop depth")
		} else {
			vhAssert(run.DebugDepth == 0 && run.Signals.Debug == base.SigNone, "answer continue switches single-stepping off")
		}
	} else {
		vhAssert(at == 0, "the debugger does not stop at a statement at or below the stop depth")
		vhAssert(run.DebugDepth == d && run.Signals.Debug == base.SigDebug, "stop depth unchanged")
	}
	vhAssert(ran == 1, "exactly one statement is executed per single step")
	vhAssert(retEnv == env, "frame returned by the statement is handed on")
	vhReach("end")
}

// the four commands, with the stop depth each of them asks for (see the companion harness in package debug):
// step = MaxInt, next = depth+1, finish = depth, continue = 0
func VH_C19_stopRule() {
	cur := vhInt("depth at the stop")
	e := vhInt("depth of a later statement")
	vhAssume(cur >= 1 && cur < 1<<61 && e >= 0 && e < 1<<61)
	cmd := vhPick("command", 4)
	var op DebugOp
	switch cmd {
	case 0:
		op = DebugOpStep
	case 1:
		op = DebugOp{Depth: cur + 1}
	case 2:
		op = DebugOp{Depth: cur}
	default:
		op = DebugOpContinue
	}
	// the command is applied at the stop ...
	run0 := vhDebugRun()
	sig := run0.applyDebugOp(op)
	// ... and a later statement at depth e is about to run
	at, _, ran, _, _, _, _, _ := vhStepOnce(e, run0.DebugDepth, sig, DebugOpStep, base.SigNone)
	switch cmd {
	case 0:
		vhAssert(at == 1, "after step the debugger stops at the next statement at any depth")
		vhAssert(ran == 1, "after step: one statement per stop")
	case 1:
		vhAssert((at == 1) == (e <= cur), "after next it stops exactly at statements at the same or a shallower depth")
	case 2:
		vhAssert((at == 1) == (e < cur), "after finish it stops exactly at statements at a shallower depth")
	default:
		vhAssert(at == 0, "after continue it never stops at ordinary statements")
		vhAssert(ran == 0, "after continue statements are handed back to the normal executor")
	}
	vhReach("end")
}

// the statement itself may switch the debug signal (a nested breakpoint or a continue inside a call)
func VH_C19_singleStep_interrupt() {
	run := vhDebugRun()
	run.DebugDepth = 1
	run.Signals.Debug = base.SigDebug
	at, bp := 0, 0
	run.Debugger = vhDbg{at: &at, bp: &bp, op: DebugOpStep}
	hitInterrupt, hitNext := 0, 0
	run.Interrupt = func(env *Env) (Stmt, *Env) { hitInterrupt++; return nil, env }
	env := &Env{Run: run, CallDepth: 5, DebugComp: vhComp()}
	after := base.Signal(vhU8("signal left by the statement"))
	next := func(env *Env) (Stmt, *Env) { hitNext++; return nil, env }
	stmt := func(env *Env) (Stmt, *Env) {
		run.Signals.Debug = after
		return next, env
	}
	env.Code = []Stmt{stmt, next}
	ret, _ := singleStep(env)
	ret(env)
	if after != base.SigNone {
		vhAssert(hitInterrupt == 1 && hitNext == 0, "while single-stepping, control returns to the executor after every statement")
	} else {
		vhAssert(hitInterrupt == 0 && hitNext == 1, "once single-stepping is off the next statement is chained directly")
	}
	vhReach("end")
}

// the stop rule compares call depths: the depth bookkeeping of frames is part of it (shared with C06)
func VH_C19_callDepth_onCall()   { VH_C06_allocate() }
func VH_C19_callDepth_onReturn() { VH_C06_free() }

type vhStepDbg struct {
	at *int
	op DebugOp
}

func (d vhStepDbg) Breakpoint(ir *Interp, env *Env) DebugOp { return d.op }
func (d vhStepDbg) At(ir *Interp, env *Env) DebugOp {
	*d.at++
	if *d.at > 60 {
		panic("runaway: the debugger keeps being consulted") // makes non-termination a replayable failure
	}
	return d.op
}

// single-stepping through a whole function body that ends without an explicit return statement:
// the function must return after its last statement, every statement runs once, results are unaffected
func VH_C19_stepToEndOfFunction() {
	n := 1 + vhPick("statements", 4)
	run := vhDebugRun()
	at := 0
	answers := []DebugOp{DebugOpStep, {Depth: 2}, {Depth: 1}}
	run.Debugger = vhStepDbg{at: &at, op: answers[vhPick("command given at every stop", 3)]} // step, next, finish (function at depth 1)
	run.Signals.Debug = base.SigDebug
	run.DebugDepth = MaxInt
	env := &Env{Run: run, CallDepth: 1, DebugComp: vhComp()}
	executed, inorder := 0, true
	list := make([]Stmt, n)
	for i := 0; i < n; i++ {
		i := i
		list[i] = func(env *Env) (Stmt, *Env) {
			if executed != i {
				inorder = false
			}
			executed++
			if executed > 60 {
				panic("runaway: statements keep running")
			}
			env.IP++
			return env.Code[env.IP], env
		}
	}
	code := &Code{List: list, DebugPos: make([]token.Pos, n)}
	f := code.Exec()
	var rec interface{}
	func() {
		defer func() { rec = recover() }()
		f(env)
	}()
	vhAssert(rec == nil, "a function stepped through to its end returns")
	vhAssert(executed == n && inorder, "under the debugger every statement still runs exactly once, in order")
	vhReach("end")
}
