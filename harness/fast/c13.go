package PKG

// C13: an interrupt stops running interpreted code within a bounded number of statements.
// C12: the executor restores its bookkeeping when it is left by a panic.

import (
	"go/token"

	"github.com/cosmos72/gomacro/base"
)

// vhPollBound: the executor must notice a pending signal within this many further statement calls.
// (the property only asks for "bounded"; the current code polls every 14/15 calls)
const vhPollBound = 64

type vhLoopWorld struct {
	run                 *Run
	env                 *Env
	calls, after, k     int
	signalled           bool
	dbgAt, dbgBp        int
	loop                Stmt
}

// vhInfiniteLoop builds `for {}` as compiled code (one statement that jumps to itself) in which the
// k-th statement call coincides with the arrival of an asynchronous interrupt (Run.interrupt()).
func vhInfiniteLoop(k int, opts base.Options, flags ExecFlags) (*vhLoopWorld, func(*Env)) {
	w := &vhLoopWorld{k: k}
	w.run = &Run{IrGlobals: &IrGlobals{}}
	w.run.Options = opts
	w.run.ExecFlags = flags
	reason := interface{}("killed by debugger")
	w.run.Debugger = vhDbg{at: &w.dbgAt, bp: &w.dbgBp, op: DebugOp{Depth: 0, Panic: &reason}}
	w.env = &Env{Run: w.run, CallDepth: 1, DebugComp: vhComp()}
	w.loop = func(env *Env) (Stmt, *Env) {
		if w.calls == w.k {
			w.run.interrupt() // what the signal handler goroutine does on Ctrl-C
			w.signalled = true
		}
		w.calls++
		if w.signalled {
			w.after++
			if w.after > vhPollBound {
				panic("statements keep running after the interrupt")
			}
		}
		env.IP = 0
		return w.loop, env
	}
	code := &Code{List: []Stmt{w.loop}, DebugPos: []token.Pos{0}}
	return w, code.Exec()
}

func vhRunRecover(f func()) (rec interface{}) {
	defer func() { rec = recover() }()
	f()
	return nil
}

func VH_C13_interrupt_plainLoop() {
	k := vhPick("statement call at which Ctrl-C arrives", 100)
	w, f := vhInfiniteLoop(k, 0, 0)
	rec := vhRunRecover(func() { f(w.env) })
	vhAssert(rec == interface{}(base.SigInterrupt), "an interrupt terminates the running code with the interrupt signal")
	vhAssert(w.after <= 16, "the loop stops within one polling interval of the interrupt")
	vhAssert(w.run.Signals.Async == base.SigNone, "the interrupt is consumed")
	vhReach("end")
}

func VH_C13_interrupt_withDefers() {
	k := vhPick("statement call at which Ctrl-C arrives", 100)
	w, f := vhInfiniteLoop(k, 0, EFDefer)
	saveInterrupt := func(env *Env) (Stmt, *Env) { return nil, env }
	w.run.Interrupt = saveInterrupt
	caller := &Env{}
	w.run.CurrEnv = caller
	rec := vhRunRecover(func() { f(w.env) })
	vhAssert(rec == interface{}(base.SigInterrupt), "an interrupt terminates the running code with the interrupt signal")
	vhAssert(w.after <= 16, "the loop stops within one polling interval of the interrupt")
	// C12: bookkeeping restored although the executor was left by a panic
	vhAssert(w.run.CurrEnv == caller, "caller frame restored after the panic")
	vhAssert(w.run.ExecFlags.IsDefer(), "defer flag restored after the panic")
	vhAssert(w.run.Signals.Sync == base.SigNone && w.run.Signals.Async == base.SigNone, "no signal left pending")
	vhReach("end")
}

func VH_C13_interrupt_entersDebugger() {
	k := vhPick("statement call at which Ctrl-C arrives", 60)
	w, f := vhInfiniteLoop(k, base.OptDebugger|base.OptCtrlCEnterDebugger, 0)
	rec := vhRunRecover(func() { f(w.env) })
	vhAssert(w.dbgAt == 1, "with Ctrl-C-enters-debugger the debugger is consulted")
	vhAssert(w.after <= 17, "the debugger is entered within one polling interval")
	vhAssert(rec == interface{}("killed by debugger"), "the debugger's answer is applied")
	vhReach("end")
}

func VH_C13_interruptSignalChoice() {
	run := &Run{IrGlobals: &IrGlobals{}}
	run.Options = base.Options(vhU64("options"))
	run.interrupt()
	both := base.OptDebugger | base.OptCtrlCEnterDebugger
	if run.Options&both == both {
		vhAssert(run.Signals.Async == base.SigDebug, "Ctrl-C enters the debugger only when both options are set")
	} else {
		vhAssert(run.Signals.Async == base.SigInterrupt, "otherwise Ctrl-C interrupts")
	}
	vhReach("end")
}

func VH_C13_signalsIsEmpty() {
	var s base.Signals
	s.Sync, s.Debug, s.Async = base.Signal(vhU8("sync")), base.Signal(vhU8("debug")), base.Signal(vhU8("async"))
	vhAssert(s.IsEmpty() == (s.Sync == 0 && s.Debug == 0 && s.Async == 0), "IsEmpty sees every kind of pending signal")
	vhReach("end")
}

// a finite program: n statements then the end marker; a signal arriving at statement k
func VH_C13_interrupt_finiteProgram() {
	n := 1 + vhPick("program length", 40)
	k := vhPick("statement at which Ctrl-C arrives", 40)
	vhAssume(k < n)
	run := &Run{IrGlobals: &IrGlobals{}}
	env := &Env{Run: run}
	executed := 0
	list := make([]Stmt, n)
	for i := 0; i < n; i++ {
		i := i
		list[i] = func(env *Env) (Stmt, *Env) {
			if i == k {
				run.interrupt()
			}
			executed++
			env.IP++
			return env.Code[env.IP], env
		}
	}
	code := &Code{List: list, DebugPos: make([]token.Pos, n)}
	f := code.Exec()
	rec := vhRunRecover(func() { f(env) })
	vhAssert(rec == interface{}(base.SigInterrupt), "an interrupt during a straight-line program still raises the interrupt")
	vhAssert(executed <= n && executed > k, "no statement is executed twice or out of order")
	vhAssert(executed-k-1 <= 16, "at most one polling interval of statements runs after the interrupt")
	vhReach("end")
}

// without any signal a finite program runs every statement exactly once and returns normally
func VH_C13_noSignal_runsAll() {
	n := 1 + vhPick("program length", 80)
	run := &Run{IrGlobals: &IrGlobals{}}
	flags := vhPick("flags", 2)
	if flags == 1 {
		run.ExecFlags = EFDefer
	}
	env := &Env{Run: run}
	executed, inorder := 0, true
	list := make([]Stmt, n)
	for i := 0; i < n; i++ {
		i := i
		list[i] = func(env *Env) (Stmt, *Env) {
			if executed != i {
				inorder = false
			}
			executed++
			env.IP++
			return env.Code[env.IP], env
		}
	}
	code := &Code{List: list, DebugPos: make([]token.Pos, n)}
	f := code.Exec()
	rec := vhRunRecover(func() { f(env) })
	vhAssert(rec == nil, "a program that nobody interrupts returns normally")
	vhAssert(executed == n && inorder, "every statement runs exactly once, in order")
	vhAssert(run.Signals.Sync == base.SigNone, "the end-of-code signal is consumed")
	vhReach("end")
}

// a function with a defer statement: the interrupt arrives a few statements before the defer executes
func VH_C13_interrupt_beforeDefer() {
	pre := vhPick("plain statements before the defer", 16)
	k := vhPick("statement call at which Ctrl-C arrives", 20)
	run := &Run{IrGlobals: &IrGlobals{}}
	env := &Env{Run: run}
	calls, after, deferred := 0, 0, 0
	signalled := false
	tick := func() {
		if calls == k {
			run.interrupt()
			signalled = true
		}
		calls++
		if signalled {
			after++
			if after > vhPollBound {
				panic("statements keep running after the interrupt")
			}
		}
	}
	list := make([]Stmt, 0, pre+2)
	for i := 0; i < pre; i++ {
		list = append(list, func(env *Env) (Stmt, *Env) {
			tick()
			env.IP++
			return env.Code[env.IP], env
		})
	}
	list = append(list, func(env *Env) (Stmt, *Env) {
		tick()
		env.IP++
		run := env.Run
		run.InstallDefer = func() { deferred++ }
		run.Signals.Sync = base.SigDefer
		return run.Interrupt, env
	})
	loopAt := len(list)
	list = append(list, func(env *Env) (Stmt, *Env) {
		tick()
		env.IP = loopAt
		return env.Code[loopAt], env
	})
	code := &Code{List: list, DebugPos: make([]token.Pos, len(list)), WithDefers: true}
	f := code.Exec()
	rec := vhRunRecover(func() { f(env) })
	vhAssert(rec == interface{}(base.SigInterrupt), "an interrupt arriving shortly before a defer statement is still delivered")
	vhAssert(after <= 32, "the function stops within two polling intervals of the interrupt")
	if k > pre {
		vhAssert(deferred == 1, "the deferred call installed before the interrupt runs exactly once")
	} else {
		vhAssert(deferred <= 1, "a deferred call runs at most once")
	}
	vhReach("end")
}

// an endless loop that is being stepped over by the debugger (next/finish: no stops inside)
func VH_C13_interrupt_whileSteppingOver() {
	k := vhPick("statement call at which Ctrl-C arrives", 40)
	w, f := vhInfiniteLoop(k, base.OptDebugger, 0)
	w.run.Signals.Debug = base.SigDebug
	w.run.DebugDepth = 1 // the loop runs at call depth 1: not shallower than the stop depth, so the debugger stays silent
	rec := vhRunRecover(func() { f(w.env) })
	vhAssert(rec == interface{}(base.SigInterrupt), "an interrupt is delivered while the debugger steps over a loop")
	vhAssert(w.after <= 16, "the loop stops within one polling interval of the interrupt")
	vhAssert(w.dbgAt == 0, "the debugger was not consulted inside the stepped-over loop")
	vhReach("end")
}
