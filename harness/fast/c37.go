package PKG

import (
	"io"
	"strings"
)

// model of sortCmdList (PropConfig.Redirect): a correct in-place sort by name
func vhModelSortCmdList(vec []Cmd) {
	for i := 1; i < len(vec); i++ {
		for j := i; j > 0 && vec[j].Name < vec[j-1].Name; j-- {
			vec[j], vec[j-1] = vec[j-1], vec[j]
		}
	}
}

// vhWide selects the alphabet of symbolic names: false = bytes 'a'..'c' (names sharing prefixes), true = all 256 byte values
var vhWide bool

func vhName(what string) string {
	if vhWide {
		return vhStr(what, 3)
	}
	return vhStrRange(what, 3, 'a', 'c')
}

func vhName2(what string) string {
	if vhWide {
		return vhStr(what, 2)
	}
	return vhStrRange(what, 2, 'a', 'c')
}

func vhWideRun(f func()) {
	vhWide = true
	defer func() { vhWide = false }()
	f()
}

func VH_C37_T_wide_prefixSearch2() { vhWideRun(func() { vhCheckPrefixSearch(2) }) }
func VH_C37_T_wide_binarySearch2() { vhWideRun(func() { vhCheckBinarySearch(2) }) }
func VH_C37_T_wide_addStep1()      { vhWideRun(func() { vhCheckAddStep(1) }) }
func VH_C37_T_wide_delStep1()      { vhWideRun(func() { vhCheckDelStep(1) }) }
func VH_C37_T_wide_removeCmd3()    { vhWideRun(func() { vhCheckRemoveCmd(3) }) }

func vhSortedNames(n int) []Cmd {
	vec := make([]Cmd, n)
	for i := 0; i < n; i++ {
		vec[i].Name = vhName("name")
		vhAssume(len(vec[i].Name) > 0)
		if i > 0 {
			vhAssume(vec[i-1].Name < vec[i].Name)
		}
	}
	return vec
}

// reference lookup: linear scan
func vhRefLookup(vec []Cmd, p string) (cnt, first, exact int) {
	first, exact = -1, -1
	for k := range vec {
		if strings.HasPrefix(vec[k].Name, p) {
			cnt++
			if first < 0 {
				first = k
			}
		}
		if vec[k].Name == p {
			exact = k
		}
	}
	return
}

func vhCheckPrefixSearch(n int) {
	vec := vhSortedNames(n)
	p := vhName("prefix")
	vhAssume(len(p) > 0)
	i, err := prefixSearch(vec, p)
	cnt, first, exact := vhRefLookup(vec, p)
	switch {
	case exact >= 0:
		vhAssert(err == nil && i == exact, "a prefix equal to a command name selects that command")
	case cnt == 1:
		vhAssert(err == nil && i == first, "unique prefix selects the command")
	case cnt == 0:
		vhAssert(err == io.EOF, "no match reported")
	default:
		vhAssert(err != nil && err != io.EOF, "ambiguity reported")
		if err != nil && err != io.EOF {
			want := ""
			for k := range vec {
				if strings.HasPrefix(vec[k].Name, p) {
					if want != "" {
						want += " "
					}
					want += vec[k].Name
				}
			}
			vhAssert(err.Error() == want, "ambiguity lists exactly the candidates")
		}
	}
	vhReach("end")
}

func VH_C37_prefixSearch1() { vhCheckPrefixSearch(1) }
func VH_C37_prefixSearch2() { vhCheckPrefixSearch(2) }
func VH_C37_T_prefixSearch3() { vhCheckPrefixSearch(3) }
func VH_C37_T_prefixSearch4() { vhCheckPrefixSearch(4) }

func vhCheckBinarySearch(n int) {
	vec := vhSortedNames(n)
	p := vhName("exact")
	pos, ok := binarySearch(vec, p)
	found := -1
	ins := 0
	for k := range vec {
		if vec[k].Name == p {
			found = k
		}
		if vec[k].Name < p {
			ins = k + 1
		}
	}
	if found >= 0 {
		vhAssert(ok && pos == found, "finds the equal name")
	} else {
		vhAssert(!ok && pos == ins, "otherwise returns the insertion point")
	}
	vhReach("end")
}

func VH_C37_binarySearch0() { vhCheckBinarySearch(0) }
func VH_C37_binarySearch1() { vhCheckBinarySearch(1) }
func VH_C37_binarySearch2() { vhCheckBinarySearch(2) }
func VH_C37_binarySearch3() { vhCheckBinarySearch(3) }
func VH_C37_T_binarySearch4() { vhCheckBinarySearch(4) }
func VH_C37_T_binarySearch5() { vhCheckBinarySearch(5) }

func vhCheckRemoveCmd(n int) {
	vec := make([]Cmd, n)
	names := make([]string, n)
	for i := range vec {
		names[i] = vhName2("name")
		vec[i].Name = names[i]
	}
	pos := vhPick("pos", n)
	out := removeCmd(vec, pos)
	vhAssert(len(out) == n-1, "one element shorter")
	if len(out) == n-1 {
		for i := 0; i < n-1; i++ {
			src := i
			if i >= pos {
				src = i + 1
			}
			vhAssert(out[i].Name == names[src], "remaining elements kept in order")
		}
	}
	vhReach("end")
}

func VH_C37_removeCmd1() { vhCheckRemoveCmd(1) }
func VH_C37_removeCmd2() { vhCheckRemoveCmd(2) }
func VH_C37_removeCmd3() { vhCheckRemoveCmd(3) }
func VH_C37_removeCmd4() { vhCheckRemoveCmd(4) }
func VH_C37_removeCmd5() { vhCheckRemoveCmd(5) }
func VH_C37_T_removeCmd6() { vhCheckRemoveCmd(6) }

// table invariant: every bucket is sorted strictly by name and holds names starting with its key byte
func vhTableOK(cmds Cmds) bool {
	for c, vec := range cmds.m {
		if len(vec) == 0 {
			return false
		}
		for i := range vec {
			if len(vec[i].Name) == 0 || vec[i].Name[0] != c {
				return false
			}
			if i > 0 && !(vec[i-1].Name < vec[i].Name) {
				return false
			}
		}
	}
	return true
}

// a table built through the public API from up to n names (history of Add calls)
func vhBuildTable(n int) (Cmds, []string) {
	cmds := Cmds{m: map[byte][]Cmd{}}
	names := make([]string, n)
	for i := 0; i < n; i++ {
		names[i] = vhName2("name")
		vhAssume(len(names[i]) > 0)
		cmds.Add(Cmd{Name: names[i], Help: names[i]})
	}
	return cmds, names
}

func vhCheckLookupAfterAdds(n int) {
	cmds, names := vhBuildTable(n)
	vhAssert(vhTableOK(cmds), "table invariant holds after Add")
	p := vhName2("prefix")
	vhAssume(len(p) > 0)
	cmd, err := cmds.Lookup(p)
	// reference over the distinct names added
	cnt, exact := 0, false
	for i := range names {
		dup := false
		for j := 0; j < i; j++ {
			if names[j] == names[i] {
				dup = true
			}
		}
		if dup {
			continue
		}
		if strings.HasPrefix(names[i], p) {
			cnt++
		}
		if names[i] == p {
			exact = true
		}
	}
	switch {
	case exact:
		vhAssert(err == nil && cmd.Name == p, "exact name wins")
	case cnt == 1:
		vhAssert(err == nil && strings.HasPrefix(cmd.Name, p), "unique prefix resolves")
	case cnt == 0:
		vhAssert(err == io.EOF, "no match")
	default:
		vhAssert(err != nil && err != io.EOF, "ambiguity")
	}
	vhReach("end")
}

func VH_C37_lookupAfterAdd1() { vhCheckLookupAfterAdds(1) }
func VH_C37_T_lookupAfterAdd2() { vhCheckLookupAfterAdds(2) }
func VH_C37_T_lookupAfterAdd3() { vhCheckLookupAfterAdds(3) }

func vhCheckDel(n int) {
	cmds, names := vhBuildTable(n)
	victim := vhName2("victim")
	was := false
	for i := range names {
		if names[i] == victim {
			was = true
		}
	}
	ok := cmds.Del(victim)
	vhAssert(ok == (was && len(victim) > 0), "Del reports whether the command existed")
	vhAssert(vhTableOK(cmds), "table invariant holds after Del")
	if len(victim) > 0 {
		_, err := cmds.Lookup(victim)
		if err == nil {
			// only legal when victim is a proper unique prefix of a remaining name
			c2, _ := cmds.Lookup(victim)
			vhAssert(c2.Name != victim, "deleted command is gone")
		}
	}
	for i := range names {
		if names[i] != victim {
			c3, err := cmds.Lookup(names[i])
			vhAssert(err == nil && c3.Name == names[i], "other commands still resolve by exact name")
		}
	}
	vhReach("end")
}

func VH_C37_del1() { vhCheckDel(1) }
func VH_C37_T_del2() { vhCheckDel(2) }
func VH_C37_T_del3() { vhCheckDel(3) }

// ---- one inductive step on an arbitrary valid bucket (pattern C) ----

// vhBucket: a table holding one bucket of n sorted, distinct names that all start with byte c
func vhBucket(n int) (Cmds, []Cmd, byte) {
	vec := vhSortedNames(n)
	c := vhU8("bucket")
	for i := range vec {
		vhAssume(vec[i].Name[0] == c)
	}
	cmds := Cmds{m: map[byte][]Cmd{}}
	if n > 0 {
		cmds.m[c] = vec
	}
	return cmds, vec, c
}

func vhCheckAddStep(n int) {
	cmds, vec, c := vhBucket(n)
	old := make([]string, n)
	for i := range vec {
		old[i] = vec[i].Name
	}
	name := vhName("new")
	vhAssume(len(name) > 0 && name[0] == c)
	ok := cmds.Add(Cmd{Name: name, Help: "new"})
	vhAssert(ok, "Add of a non-empty name succeeds")
	vhAssert(vhTableOK(cmds), "table invariant preserved by Add")
	had := false
	for i := range old {
		if old[i] == name {
			had = true
		}
	}
	nv := cmds.m[c]
	if had {
		vhAssert(len(nv) == n, "re-adding an existing name does not grow the table")
	} else {
		vhAssert(len(nv) == n+1, "a new name grows the table by one")
	}
	got, err := cmds.Lookup(name)
	vhAssert(err == nil && got.Name == name && got.Help == "new", "the added command resolves by its full name to the new definition")
	for i := range old {
		if old[i] != name {
			g2, err2 := cmds.Lookup(old[i])
			vhAssert(err2 == nil && g2.Name == old[i], "existing commands still resolve by full name after Add")
		}
	}
	vhReach("end")
}

func VH_C37_addStep0() { vhCheckAddStep(0) }
func VH_C37_addStep1() { vhCheckAddStep(1) }
func VH_C37_addStep2() { vhCheckAddStep(2) }
func VH_C37_T_addStep3() { vhCheckAddStep(3) }

func vhCheckDelStep(n int) {
	cmds, vec, c := vhBucket(n)
	old := make([]string, n)
	for i := range vec {
		old[i] = vec[i].Name
	}
	name := vhName("victim")
	had := false
	for i := range old {
		if old[i] == name {
			had = true
		}
	}
	ok := cmds.Del(name)
	vhAssert(ok == had, "Del reports whether the command existed")
	vhAssert(vhTableOK(cmds), "table invariant preserved by Del")
	nv := cmds.m[c]
	if had {
		vhAssert(len(nv) == n-1, "Del removes exactly one command")
	} else {
		vhAssert(len(nv) == n, "Del of an unknown name changes nothing")
	}
	for i := range nv {
		vhAssert(nv[i].Name != name, "deleted command is gone")
	}
	for i := range old {
		if old[i] != name {
			g2, err2 := cmds.Lookup(old[i])
			vhAssert(err2 == nil && g2.Name == old[i], "other commands still resolve by full name after Del")
		}
	}
	vhReach("end")
}

func VH_C37_delStep1() { vhCheckDelStep(1) }
func VH_C37_delStep2() { vhCheckDelStep(2) }
func VH_C37_T_delStep3() { vhCheckDelStep(3) }
