package PKG

// C05: if / for / break / continue compile to code whose execution follows Go's control flow.
// Sub-expressions and sub-statements are models that emit marker statements; the emitted code is
// executed by the real executor and the sequence of markers is compared with Go's semantics.

import (
	"go/ast"
	"go/token"
	r "reflect"
	"unsafe"

	"github.com/cosmos72/gomacro/base/untyped"
	xr "github.com/cosmos72/gomacro/xreflect"
)

var (
	vhLog       []int
	vhCondMode  int // 0 constant false, 1 constant true, 2 run-time function
	vhCondCalls int
	vhCondTrue  int // the run-time condition is true for the first vhCondTrue evaluations
	vhBlocks    map[*ast.BlockStmt]vhBlockSpec
)

type vhBlockSpec struct {
	emit       func(c *Comp) // when set: the block's code is emitted by this function instead of markers
	tag, n     int
	breakAt    int // >= 0: a break statement after this many markers (when the iteration counter matches)
	continueAt int
	onIter     int
}

const (
	vhInitMark = 1
	vhPostMark = 2
	vhCondMark = 3
	vhEndMark  = 9
)

func vhMarker(tag int) Stmt {
	return func(env *Env) (Stmt, *Env) {
		vhLog = append(vhLog, tag)
		if len(vhLog) > 100 {
			panic("runaway control flow") // makes non-termination an ordinary, replayable failure
		}
		env.IP++
		return env.Code[env.IP], env
	}
}

func vhModelExpr(c *Comp, in ast.Expr, t xr.Type) *Expr {
	switch vhCondMode {
	case 0:
		return vhExprValue(vhTypeOf(false), false)
	case 1:
		return vhExprValue(vhTypeOf(true), true)
	}
	return exprFun(vhTypeOf(true), func(env *Env) bool {
		vhLog = append(vhLog, vhCondMark)
		if len(vhLog) > 100 {
			panic("runaway control flow")
		}
		vhCondCalls++
		return vhCondCalls <= vhCondTrue
	})
}

// a block emits its markers; optionally a real `break` or `continue` statement guarded by the iteration number
func vhModelBlock(c *Comp, block *ast.BlockStmt) {
	spec := vhBlocks[block]
	if spec.emit != nil {
		spec.emit(c)
		return
	}
	for i := 0; i < spec.n; i++ {
		if i == spec.breakAt || i == spec.continueAt {
			// if iteration == onIter { break / continue }   compiled as: conditional skip over the jump
			onIter, isBreak := spec.onIter, i == spec.breakAt
			c.append(func(env *Env) (Stmt, *Env) {
				if vhCondCalls == onIter {
					env.IP++ // execute the jump
				} else {
					env.IP += 2 // skip it
				}
				return env.Code[env.IP], env
			})
			if isBreak {
				c.Break(&ast.BranchStmt{Tok: token.BREAK})
			} else {
				c.Continue(&ast.BranchStmt{Tok: token.CONTINUE})
			}
		}
		c.append(vhMarker(spec.tag*10 + i))
	}
}

func vhModelStmt(c *Comp, in ast.Stmt) {
	switch s := in.(type) {
	case *ast.BlockStmt:
		vhModelBlock(c, s)
	case *ast.ExprStmt:
		c.append(vhMarker(int(s.X.(*ast.BasicLit).ValuePos)))
	}
}

func vhModelPushEnv(c *Comp, nbind *[2]int, list ...ast.Stmt) (*Comp, bool) { return c, false }
func vhModelPopEnv(c *Comp, locals bool, nbinds *[2]int, list ...ast.Stmt) *Comp { return c }

func vhMarkStmt(tag int) ast.Stmt {
	return &ast.ExprStmt{X: &ast.BasicLit{ValuePos: token.Pos(tag)}}
}

func vhRunCompiled(c *Comp) (panicked bool) {
	c.append(vhMarker(vhEndMark))
	f := c.Code.Exec()
	run := &Run{IrGlobals: &IrGlobals{}}
	rec := vhRunRecover(func() { f(&Env{Run: run}) })
	return rec != nil
}

func vhLogIs(want []int) bool {
	if len(vhLog) != len(want) {
		return false
	}
	for i := range want {
		if vhLog[i] != want[i] {
			return false
		}
	}
	return true
}

func VH_C05_if() {
	c := vhComp()
	vhLog, vhCondCalls = nil, 0
	vhCondMode = vhPick("condition kind", 3)
	cond := vhCondMode == 1
	if vhCondMode == 2 {
		cond = vhBool("condition value")
		vhCondTrue = 0
		if cond {
			vhCondTrue = 1
		}
	}
	nthen, nelse := vhPick("then statements", 3), vhPick("else statements", 3)
	hasElse := vhBool("has else")
	body := &ast.BlockStmt{}
	els := &ast.BlockStmt{}
	vhBlocks = map[*ast.BlockStmt]vhBlockSpec{body: {tag: 4, n: nthen, breakAt: -1, continueAt: -1}, els: {tag: 5, n: nelse, breakAt: -1, continueAt: -1}}
	node := &ast.IfStmt{Cond: &ast.Ident{Name: "cond"}, Body: body}
	if hasElse {
		node.Else = els
	}
	hasInit := vhBool("has init")
	if hasInit {
		node.Init = vhMarkStmt(vhInitMark)
	}
	cerr := false
	func() {
		defer func() {
			if recover() != nil {
				cerr = true
			}
		}()
		c.If(node)
	}()
	vhAssert(!cerr, "compiles")
	if cerr {
		return
	}
	panicked := vhRunCompiled(c)
	vhAssert(!panicked, "runs")
	var want []int
	if hasInit {
		want = append(want, vhInitMark)
	}
	if vhCondMode == 2 {
		want = append(want, vhCondMark)
	}
	if cond {
		for i := 0; i < nthen; i++ {
			want = append(want, 40+i)
		}
	} else if hasElse {
		for i := 0; i < nelse; i++ {
			want = append(want, 50+i)
		}
	}
	want = append(want, vhEndMark)
	vhAssert(vhLogIs(want), "init, condition once, exactly the selected branch, then the statement after the if")
	vhReach("end")
}

func VH_C05_for() {
	c := vhComp()
	vhLog, vhCondCalls = nil, 0
	vhCondMode = 2
	if vhBool("condition is the constant false") {
		vhCondMode = 0
	}
	iters := vhPick("iterations", 4)
	vhCondTrue = iters
	nbody := vhPick("body statements", 3)
	hasInit, hasPost := vhBool("has init"), vhBool("has post")
	jump := vhPick("jump in body", 3) // 0 none, 1 break, 2 continue
	at, onIter := vhPick("jump position", 3), 1+vhPick("jump on iteration", 3)
	vhAssume(jump == 0 || at < nbody)
	body := &ast.BlockStmt{}
	spec := vhBlockSpec{tag: 6, n: nbody, breakAt: -1, continueAt: -1, onIter: onIter}
	if jump == 1 {
		spec.breakAt = at
	} else if jump == 2 {
		spec.continueAt = at
	}
	vhBlocks = map[*ast.BlockStmt]vhBlockSpec{body: spec}
	node := &ast.ForStmt{Cond: &ast.Ident{Name: "cond"}, Body: body}
	if hasInit {
		node.Init = vhMarkStmt(vhInitMark)
	}
	if hasPost {
		node.Post = vhMarkStmt(vhPostMark)
	}
	cerr := false
	func() {
		defer func() {
			if recover() != nil {
				cerr = true
			}
		}()
		c.For(node, nil)
	}()
	vhAssert(!cerr, "compiles")
	if cerr {
		return
	}
	panicked := vhRunCompiled(c)
	vhAssert(!panicked, "runs")
	// Go semantics of:  for init; cond; post { body with optional break/continue at position `at` on iteration onIter }
	var want []int
	if hasInit {
		want = append(want, vhInitMark)
	}
	if vhCondMode == 2 {
		for it := 1; ; it++ {
			want = append(want, vhCondMark)
			if it > iters {
				break
			}
			broke := false
			for i := 0; i < nbody; i++ {
				if jump != 0 && i == at && it == onIter {
					broke = jump == 1
					break
				}
				want = append(want, 60+i)
			}
			if broke {
				break
			}
			if hasPost {
				want = append(want, vhPostMark)
			}
		}
	}
	want = append(want, vhEndMark)
	vhAssert(vhLogIs(want), "init once; condition before every iteration; body; post after every completed or continued iteration; break leaves the loop")
	vhReach("end")
}

// break / continue / goto leaving upn nested frames: control continues in the frame upn levels up, at the
// target statement (whose index is filled in after the jump was compiled)
func VH_C05_jumpOut() {
	c := vhComp()
	upn := vhPick("frames to leave", 8)
	const depth = 9
	envs := make([]*Env, depth)
	hitEnv, hitIdx := -1, -1
	for j := 0; j < depth; j++ {
		j := j
		envs[j] = &Env{}
		envs[j].Code = make([]Stmt, 3)
		for i := 0; i < 3; i++ {
			i := i
			envs[j].Code[i] = func(env *Env) (Stmt, *Env) {
				hitEnv, hitIdx = j, i
				return nil, env
			}
		}
	}
	for j := 0; j+1 < depth; j++ {
		envs[j].Outer = envs[j+1]
	}
	target := -1
	n := len(c.Code.List)
	cerr := false
	func() {
		defer func() {
			if recover() != nil {
				cerr = true
			}
		}()
		c.jumpOut(upn, &target)
	}()
	vhAssert(!cerr && len(c.Code.List) == n+1, "compiles to one statement")
	if cerr || len(c.Code.List) != n+1 {
		return
	}
	target = vhPick("target statement", 3) // the jump target becomes known only later
	s, e := c.Code.List[n](envs[0])
	vhAssert(e == envs[upn], "control continues in the frame that many levels up")
	vhAssert(e.IP == target, "at the target statement")
	s(e)
	vhAssert(hitEnv == upn && hitIdx == target, "the statement returned is the target statement of that frame")
	vhReach("end")
}

// goto: the label is searched in the enclosing blocks up to and including the function body
func VH_C05_gotoLabel() {
	body := vhComp()
	body.Func = &FuncInfo{}
	target := 2
	body.Labels = map[string]*int{"again": &target}
	nest := vhPick("blocks between the goto and the function body", 3)
	c := body
	for i := 0; i < nest; i++ {
		c = &Comp{CompGlobals: body.CompGlobals, Outer: c, UpCost: 1}
	}
	cerr := false
	func() {
		defer func() {
			if recover() != nil {
				cerr = true
			}
		}()
		c.Goto(&ast.BranchStmt{Tok: token.GOTO, Label: &ast.Ident{Name: "again"}})
	}()
	vhAssert(!cerr, "a goto to a label declared in the function body compiles")
	if cerr {
		return
	}
	vhAssert(len(c.Code.List) == 1, "one jump statement is emitted")
	envs := make([]*Env, 4)
	for j := range envs {
		envs[j] = &Env{}
		envs[j].Code = make([]Stmt, 3)
	}
	for j := 0; j+1 < len(envs); j++ {
		envs[j].Outer = envs[j+1]
	}
	_, e := c.Code.List[0](envs[0])
	vhAssert(e == envs[nest] && e.IP == 2, "the jump lands in the function body's frame at the label")
	// a label of an enclosing *function* is not visible
	inner := vhComp()
	inner.Func = &FuncInfo{}
	inner.Outer = body
	failed := false
	func() {
		defer func() {
			if recover() != nil {
				failed = true
			}
		}()
		inner.Goto(&ast.BranchStmt{Tok: token.GOTO, Label: &ast.Ident{Name: "again"}})
	}()
	vhAssert(failed, "goto does not cross a function boundary")
	vhReach("end")
}


// ---- for-range over a slice: the key variable ----
// Go assigns the key at the start of every iteration from a hidden counter: the body sees 0..n-1 whatever it does to the
// key, a key assigned with `=` starts from 0 whatever it held before, and after the loop the key variable (visible to
// closures that captured it, or to the code after the loop for the `=` form) holds the index of the last iteration.
func VH_C05_rangeSliceKey() {
	c := vhComp()
	if vhSymbolic() {
		u := &xr.Universe{}
		u.BasicTypes = make([]xr.Type, int(r.UnsafePointer)+1)
		u.BasicTypes[r.Int] = vhTypeOf(int(0))
		u.BasicTypes[r.Bool] = vhTypeOf(false)
		c.CompGlobals.Universe = u
	}
	vhLog = nil
	n := vhPick("slice length", 4)
	s := make([]int32, n)
	define := vhBool("the key is declared by the loop (:=) rather than assigned (=)")
	modify := vhBool("the body increments the key")
	k0 := vhPick("value of the key variable before the loop", 6)
	if !define {
		var zero int
		c.Binds = map[string]*Bind{"i": &Bind{Lit: Lit{Type: vhTypeOf(zero)}, Desc: IntBind.MakeDescriptor(0), Name: "i"}}
		c.IntBindNum = 1
	}
	erange := exprX1(vhTypeOf(s), func(env *Env) xr.Value { return xr.ValueOf(s) })
	body := &ast.BlockStmt{}
	keySlot := func() int { return c.Binds["i"].Desc.Index() }
	vhBlocks = map[*ast.BlockStmt]vhBlockSpec{body: {emit: func(c *Comp) {
		slot := keySlot()
		c.append(func(env *Env) (Stmt, *Env) {
			p := (*int)(unsafe.Pointer(&env.Ints[slot]))
			vhLog = append(vhLog, *p)
			if len(vhLog) > 20 {
				panic("runaway loop")
			}
			if modify {
				*p++
			}
			env.IP++
			return env.Code[env.IP], env
		})
	}}}
	node := &ast.RangeStmt{Key: &ast.Ident{Name: "i"}, Tok: token.ASSIGN, X: &ast.Ident{Name: "s"}, Body: body}
	if define {
		node.Tok = token.DEFINE
	}
	var jump rangeJump
	c.Loop = &LoopInfo{Continue: &jump.Continue, Break: &jump.Break}
	cerr := false
	func() {
		defer func() {
			if recover() != nil {
				cerr = true
			}
		}()
		c.rangeSlice(node, erange, &jump)
		jump.Break = c.Code.Len()
	}()
	vhAssert(!cerr, "compiles")
	if cerr {
		return
	}
	slot := keySlot()
	c.append(vhMarker(-1))
	f := c.Code.Exec()
	env := &Env{Run: &Run{IrGlobals: &IrGlobals{}}}
	env.Ints, env.Vals = make([]uint64, c.IntBindNum+1), make([]xr.Value, c.BindNum+1)
	if !define {
		*(*int)(unsafe.Pointer(&env.Ints[0])) = k0
	}
	rec := vhRunRecover(func() { f(env) })
	vhAssert(rec == nil, "runs")
	if rec != nil {
		return
	}
	vhAssert(len(vhLog) == n+1 && vhLog[n] == -1, "the body runs once per element, then the loop is left")
	for it := 0; it < n && it < len(vhLog); it++ {
		vhAssert(vhLog[it] == it, "iteration number it sees key == it, whatever the body did to the key before")
	}
	final := *(*int)(unsafe.Pointer(&env.Ints[slot]))
	if n > 0 && !modify {
		vhAssert(final == n-1, "after the loop the key variable holds the index of the last iteration")
	}
	if n == 0 && !define {
		vhAssert(final == k0, "a loop over an empty slice leaves an assigned key untouched")
	}
	vhReach("end")
}


// for-range over a string: the key is the byte offset of the current rune, assigned only when an iteration is
// executed; an assigned (=) value variable that lives in an outer frame is written in that frame
func VH_C05_rangeStringKey() {
	c := vhComp()
	if vhSymbolic() {
		u := &xr.Universe{}
		u.BasicTypes = make([]xr.Type, int(r.UnsafePointer)+1)
		u.BasicTypes[r.Int] = vhTypeOf(int(0))
		u.BasicTypes[r.Int32] = vhTypeOf(int32(0))
		u.BasicTypes[r.Bool] = vhTypeOf(false)
		c.CompGlobals.Universe = u
	}
	vhLog = nil
	cases := [...]string{"", "a", "ab", "h\u00e9y", "\u20acx", "\xffz"}
	offsets := [...][]int{{}, {0}, {0, 1}, {0, 1, 3}, {0, 3}, {0, 1}}
	which := vhPick("string", len(cases))
	str := cases[which]
	want := offsets[which]
	k0 := vhPick("value of the key variable before the loop", 6)
	var zero int
	c.Binds = map[string]*Bind{"i": &Bind{Lit: Lit{Type: vhTypeOf(zero)}, Desc: IntBind.MakeDescriptor(0), Name: "i"}}
	c.IntBindNum = 1
	erange := exprFun(vhTypeOf(str), func(env *Env) string { return str })
	body := &ast.BlockStmt{}
	vhBlocks = map[*ast.BlockStmt]vhBlockSpec{body: {emit: func(c *Comp) {
		c.append(func(env *Env) (Stmt, *Env) {
			vhLog = append(vhLog, *(*int)(unsafe.Pointer(&env.Ints[0])))
			if len(vhLog) > 20 {
				panic("runaway loop")
			}
			env.IP++
			return env.Code[env.IP], env
		})
	}}}
	node := &ast.RangeStmt{Key: &ast.Ident{Name: "i"}, Tok: token.ASSIGN, X: &ast.Ident{Name: "s"}, Body: body}
	var jump rangeJump
	c.Loop = &LoopInfo{Continue: &jump.Continue, Break: &jump.Break}
	cerr := false
	func() {
		defer func() {
			if recover() != nil {
				cerr = true
			}
		}()
		c.rangeString(node, erange, &jump)
		jump.Break = c.Code.Len()
	}()
	vhAssert(!cerr, "compiles")
	if cerr {
		return
	}
	c.append(vhMarker(-1))
	f := c.Code.Exec()
	env := &Env{Run: &Run{IrGlobals: &IrGlobals{}}}
	env.Ints, env.Vals = make([]uint64, c.IntBindNum+1), make([]xr.Value, c.BindNum+1)
	*(*int)(unsafe.Pointer(&env.Ints[0])) = k0
	rec := vhRunRecover(func() { f(env) })
	vhAssert(rec == nil, "runs")
	if rec != nil {
		return
	}
	vhAssert(len(vhLog) == len(want)+1 && vhLog[len(want)] == -1, "one iteration per rune")
	for it := 0; it < len(want) && it < len(vhLog); it++ {
		vhAssert(vhLog[it] == want[it], "the key is the byte offset of the rune")
	}
	final := *(*int)(unsafe.Pointer(&env.Ints[0]))
	if len(want) > 0 {
		vhAssert(final == want[len(want)-1], "after the loop the key holds the offset of the last rune")
	} else {
		vhAssert(final == k0, "a loop over the empty string leaves the key untouched")
	}
	vhReach("end")
}


// `for _, v = range str` where v is a variable of an enclosing scope: each rune is stored in v's own frame
func VH_C05_rangeStringOuterValue() {
	c := vhComp()
	if vhSymbolic() {
		u := &xr.Universe{}
		u.BasicTypes = make([]xr.Type, int(r.UnsafePointer)+1)
		u.BasicTypes[r.Int] = vhTypeOf(int(0))
		u.BasicTypes[r.Int32] = vhTypeOf(int32(0))
		u.BasicTypes[r.Bool] = vhTypeOf(false)
		c.CompGlobals.Universe = u
	}
	vhLog = nil
	var zero32 int32
	outer := &Comp{CompGlobals: c.CompGlobals}
	outer.Binds = map[string]*Bind{"v": &Bind{Lit: Lit{Type: vhTypeOf(zero32)}, Desc: IntBind.MakeDescriptor(1), Name: "v"}}
	outer.IntBindNum = 2
	inner := &Comp{CompGlobals: c.CompGlobals, Outer: outer, UpCost: 1, Depth: 1}
	str := [...]string{"a", "xy", "\u00e9"}[vhPick("string", 3)]
	wantLast := [...]int32{'a', 'y', 0xe9}
	erange := exprFun(vhTypeOf(str), func(env *Env) string { return str })
	body := &ast.BlockStmt{}
	vhBlocks = map[*ast.BlockStmt]vhBlockSpec{body: {emit: func(c *Comp) {}}}
	node := &ast.RangeStmt{Key: &ast.Ident{Name: "_"}, Value: &ast.Ident{Name: "v"}, Tok: token.ASSIGN, X: &ast.Ident{Name: "s"}, Body: body}
	var jump rangeJump
	inner.Loop = &LoopInfo{Continue: &jump.Continue, Break: &jump.Break}
	cerr := false
	func() {
		defer func() {
			if recover() != nil {
				cerr = true
			}
		}()
		inner.rangeString(node, erange, &jump)
		jump.Break = inner.Code.Len()
	}()
	vhAssert(!cerr, "compiles")
	if cerr {
		return
	}
	inner.append(vhMarker(-1))
	f := inner.Code.Exec()
	run := &Run{IrGlobals: &IrGlobals{}}
	outerEnv := &Env{Run: run}
	outerEnv.Ints, outerEnv.Vals = make([]uint64, 3), make([]xr.Value, 1)
	env := &Env{Run: run, Outer: outerEnv}
	env.Ints, env.Vals = make([]uint64, inner.IntBindNum+2), make([]xr.Value, inner.BindNum+1)
	before := make([]uint64, len(env.Ints))
	rec := vhRunRecover(func() { f(env) })
	vhAssert(rec == nil, "runs")
	if rec != nil {
		return
	}
	got := *(*int32)(unsafe.Pointer(&outerEnv.Ints[1]))
	which := 0
	if str == "xy" {
		which = 1
	} else if str != "a" {
		which = 2
	}
	vhAssert(got == wantLast[which], "the outer variable holds the last rune")
	_ = before
	vhReach("end")
}


// select { case ch <- v: }: the value may be an untyped constant, a typed constant or a computed value assignable to
// the channel's element type; the compiled clause sends that value converted to the element type
func VH_C05_selectSendValue() {
	c := vhComp()
	if vhSymbolic() {
		u := &xr.Universe{}
		u.BasicTypes = make([]xr.Type, int(r.UnsafePointer)+1)
		u.BasicTypes[r.Int] = vhTypeOf(int(0))
		u.BasicTypes[r.Int32] = vhTypeOf(int32(0))
		u.BasicTypes[r.Bool] = vhTypeOf(false)
		u.ReflectTypes = map[r.Type]xr.Type{rtypeOfUntypedLit: vhTypeOf(UntypedLit{})}
		c.CompGlobals.Universe = u
	}
	var ch chan int32 // only its type matters: the clause is compiled, not executed
	x := vhI32("x")
	shape := vhPick("the sent value is an untyped constant / a typed constant / computed", 3)
	var esend *Expr
	switch shape {
	case 0:
		k := vhConstInt("k")
		vhAssume(vhConstFits(k, -1<<31, 1<<31-1))
		x = int32(vhConstLow64(k))
		esend = c.exprUntypedLit(untyped.Int, k)
	case 1:
		esend = vhExprValue(vhTypeOf(x), x)
	default:
		esend = exprFun(vhTypeOf(x), func(env *Env) int32 { return x })
	}
	nchan, nval := &ast.Ident{Name: "ch"}, &ast.Ident{Name: "v"}
	vhArgExprs = map[ast.Expr]*Expr{
		nchan: exprX1(vhTypeOf(ch), func(env *Env) xr.Value { return xr.ValueOf(ch) }),
		nval:  esend,
	}
	clause := &ast.CommClause{Comm: &ast.SendStmt{Chan: nchan, Value: nval}}
	brk := 0
	c.Loop = &LoopInfo{Break: &brk}
	var entry selectEntry
	failed := false
	func() {
		defer func() {
			if recover() != nil {
				failed = true
			}
		}()
		entry = c.selectCase(clause, nil)
	}()
	vhAssert(!failed, "a send clause whose value is assignable to the element type compiles (also for constants)")
	if failed {
		return
	}
	vhAssert(entry.Dir == r.SelectSend && entry.Chan != nil && entry.Send != nil, "a send entry")
	if entry.Send == nil {
		return
	}
	v := entry.Send(&Env{})
	got, ok := v.Interface().(int32)
	vhAssert(ok && got == x, "the value sent is the operand converted to the channel's element type")
	vhReach("end")
}
