package PKG

func VH_T00_add() {
	x, y := vhI8("x"), vhI8("y")
	vhAssert(x+y == y+x, "commutative")
	vhAssert(x+y >= x, "WRONG: no overflow")
	vhReach("end")
}

func VH_T00_slot() {
	env := &Env{}
	env.Ints = make([]uint64, 3)
	v := vhU64("v")
	env.Ints[1] = v
	idx := vhInt("idx")
	vhAssume(idx >= 0 && idx < 3)
	got := env.Ints[idx]
	vhAssert(idx != 1 || got == v, "slot read")
	vhReach("end")
}
