package PKG

import "unicode/utf8"

// Self-test of the engine's rune decoder for strings with symbolic bytes: the string is symbolic but pinned by an
// assumption to one of the boundary cases below; the oracle is unicode/utf8 (executed from source) on the literal.
var vhT02Cases = [...]string{
	"", "a", "\x7f", "\x80", "\xbf", "\xc0\x80", "\xc1\xbf", "\xc2\x80", "\xdf\xbf", "\xc2", "\xc2\x7f", "\xc2\xc0",
	"\xe0\x9f\xbf", "\xe0\xa0\x80", "\xe1\x80\x80", "\xec\xbf\xbf", "\xed\x9f\xbf", "\xed\xa0\x80", "\xee\x80\x80", "\xef\xbf\xbf",
	"\xe2\x82", "\xe2\x82\x41", "\xf0\x8f\xbf\xbf", "\xf0\x90\x80\x80", "\xf3\xbf\xbf\xbf", "\xf4\x8f\xbf\xbf", "\xf4\x90\x80\x80",
	"\xf5\x80\x80\x80", "\xf0\x9f\x98", "\xf0\x9f\x98\x41", "a\xc3\xa9b", "\xe2\x82\xacx", "\xffa", "\xc3\xa9\xc3",
}

func VH_T02_rangeSymbolic() {
	lit := vhT02Cases[vhPick("case", len(vhT02Cases))]
	s := vhStr("s", 4)
	vhAssume(s == lit)
	pos, count := 0, 0
	for i, r := range s {
		wr, size := utf8.DecodeRuneInString(lit[pos:])
		vhAssert(i == pos, "index of the rune")
		vhAssert(r == wr, "rune value as utf8.DecodeRuneInString")
		pos += size
		count++
	}
	vhAssert(pos == len(lit) && count == utf8.RuneCountInString(lit), "range consumes the whole string")
	vhReach("end")
}
