package PKG

// C27: positions mapped through a file set with a starting line offset = standard positions shifted by the offset.

import (
	"go/token"
)

func VH_C27_fileOffset() {
	fs := NewFileSet()
	n := 1 + vhPick("file size", 5)
	off := vhInt("starting line offset")
	vhAssume(off >= 0 && off < 1<<40)
	f := fs.AddFile("x.go", -1, n, off)
	content := make([]byte, n)
	for i := range content {
		if vhBool("newline") {
			content[i] = '\n'
		} else {
			content[i] = 'a'
		}
	}
	f.SetLinesForContent(content)
	f.SetSourceForContent(content)
	p := vhPick("offset", 6)
	vhAssume(p <= n)
	pos := token.Pos(f.Base() + p)
	got := fs.Position(pos)
	// reference: the standard file set on the same content
	std := token.NewFileSet()
	sf := std.AddFile("x.go", -1, n)
	sf.SetLinesForContent(content)
	want := std.Position(token.Pos(sf.Base() + p))
	vhAssert(got.Line == want.Line+off, "line = standard line + starting offset")
	vhAssert(got.Column == want.Column, "column unaffected by the offset")
	vhAssert(got.Offset == p && got.Filename == "x.go", "offset and file name passed through")
	src, pos2 := fs.Source(pos)
	vhAssert(pos2.Line == got.Line && pos2.Column == got.Column, "Source reports the same position")
	// the text of that line
	start := 0
	for i := 0; i < p; i++ {
		if content[i] == '\n' {
			start = i + 1
		}
	}
	end := start
	for end < n && content[end] != '\n' {
		end++
	}
	if p < n {
		vhAssert(src == string(content[start:end]), "Source returns the text of the line holding the position")
	}
	var none token.Pos
	np := fs.Position(none)
	vhAssert(!np.IsValid() && np.Line == 0, "the invalid position stays invalid (no offset added)")
	vhReach("end")
}
