package PKG

import (
	"go/constant"
	"go/token"

	xr "github.com/cosmos72/gomacro/xreflect"
)

var vhNativeUniverse *xr.Universe

// vhTypeOf is intercepted by the engine; natively it asks a real universe.
func vhTypeOf(x interface{}) xr.Type {
	if vhNativeUniverse == nil {
		vhNativeUniverse = xr.NewUniverse()
	}
	return vhNativeUniverse.TypeOf(x)
}

func vhConvert(src interface{}, t xr.Type) (res interface{}, failed bool) {
	defer func() {
		if recover() != nil {
			res, failed = nil, true
		}
	}()
	return ConvertLiteralCheckOverflow(src, t), false
}

// ---- native implementations of the go/constant intrinsics (the engine intercepts them by name) ----

func vhConstInt(name string) constant.Value {
	e := vhNext("bigint")
	s := e.Val
	neg := false
	if len(s) > 0 && s[0] == '-' {
		neg, s = true, s[1:]
	}
	v := constant.MakeFromLiteral(s, token.INT, 0)
	if neg {
		v = constant.UnaryOp(token.SUB, v, 0)
	}
	return v
}

func vhConstToF64(v constant.Value) float64 {
	f, _ := constant.Float64Val(constant.ToFloat(v))
	return f
}

func vhConstToF32(v constant.Value) float32 {
	f, _ := constant.Float32Val(constant.ToFloat(v))
	return f
}

func vhConstFits(v constant.Value, lo int64, hi uint64) bool {
	return constant.Compare(constant.MakeInt64(lo), token.LEQ, v) && constant.Compare(v, token.LEQ, constant.MakeUint64(hi))
}

func vhConstAbsBelowPow2(v constant.Value, k int) bool {
	pow := constant.Shift(constant.MakeInt64(1), token.SHL, uint(k))
	return constant.Compare(v, token.LSS, pow) && constant.Compare(constant.UnaryOp(token.SUB, pow, 0), token.LSS, v)
}

func vhConstLow64(v constant.Value) uint64 {
	if i, ok := constant.Int64Val(v); ok {
		return uint64(i)
	}
	u, _ := constant.Uint64Val(v)
	return u
}

func vhLitConvert(l *Lit, t xr.Type) (res interface{}, failed bool) {
	defer func() {
		if recover() != nil {
			res, failed = nil, true
		}
	}()
	return l.Convert(t), false
}

// rune32or64: identity; spelled as a function so that the conversion string(int64) below is Go's integer -> string
// conversion on the full 64-bit value (values outside the code point range yield "\uFFFD")
func rune32or64(i int64) int64 { return i }
