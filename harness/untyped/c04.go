package PKG

import "go/constant"

// untyped integer constants of arbitrary size converted to every numeric kind through Lit.Convert

func VH_C04_untypedInt_to_int() {
	c := vhConstInt("constant")
	var zero int
	res, failed := vhLitConvert(&Lit{Kind: Int, Val: c}, vhTypeOf(zero))
	fits := vhConstFits(c, -9223372036854775808, 9223372036854775807)
	vhAssert(failed == !fits, "an untyped integer constant converts to an integer type exactly when the type can represent it")
	if !failed && fits {
		got, ok := res.(int)
		vhAssert(ok && got == int(vhConstLow64(c)), "the converted value is the constant")
	}
	vhReach("end")
}

func VH_C04_untypedInt_to_int8() {
	c := vhConstInt("constant")
	var zero int8
	res, failed := vhLitConvert(&Lit{Kind: Int, Val: c}, vhTypeOf(zero))
	fits := vhConstFits(c, -128, 127)
	vhAssert(failed == !fits, "an untyped integer constant converts to an integer type exactly when the type can represent it")
	if !failed && fits {
		got, ok := res.(int8)
		vhAssert(ok && got == int8(vhConstLow64(c)), "the converted value is the constant")
	}
	vhReach("end")
}

func VH_C04_untypedInt_to_int16() {
	c := vhConstInt("constant")
	var zero int16
	res, failed := vhLitConvert(&Lit{Kind: Int, Val: c}, vhTypeOf(zero))
	fits := vhConstFits(c, -32768, 32767)
	vhAssert(failed == !fits, "an untyped integer constant converts to an integer type exactly when the type can represent it")
	if !failed && fits {
		got, ok := res.(int16)
		vhAssert(ok && got == int16(vhConstLow64(c)), "the converted value is the constant")
	}
	vhReach("end")
}

func VH_C04_untypedInt_to_int32() {
	c := vhConstInt("constant")
	var zero int32
	res, failed := vhLitConvert(&Lit{Kind: Int, Val: c}, vhTypeOf(zero))
	fits := vhConstFits(c, -2147483648, 2147483647)
	vhAssert(failed == !fits, "an untyped integer constant converts to an integer type exactly when the type can represent it")
	if !failed && fits {
		got, ok := res.(int32)
		vhAssert(ok && got == int32(vhConstLow64(c)), "the converted value is the constant")
	}
	vhReach("end")
}

func VH_C04_untypedInt_to_int64() {
	c := vhConstInt("constant")
	var zero int64
	res, failed := vhLitConvert(&Lit{Kind: Int, Val: c}, vhTypeOf(zero))
	fits := vhConstFits(c, -9223372036854775808, 9223372036854775807)
	vhAssert(failed == !fits, "an untyped integer constant converts to an integer type exactly when the type can represent it")
	if !failed && fits {
		got, ok := res.(int64)
		vhAssert(ok && got == int64(vhConstLow64(c)), "the converted value is the constant")
	}
	vhReach("end")
}

func VH_C04_untypedInt_to_uint() {
	c := vhConstInt("constant")
	var zero uint
	res, failed := vhLitConvert(&Lit{Kind: Int, Val: c}, vhTypeOf(zero))
	fits := vhConstFits(c, 0, 18446744073709551615)
	vhAssert(failed == !fits, "an untyped integer constant converts to an integer type exactly when the type can represent it")
	if !failed && fits {
		got, ok := res.(uint)
		vhAssert(ok && got == uint(vhConstLow64(c)), "the converted value is the constant")
	}
	vhReach("end")
}

func VH_C04_untypedInt_to_uint8() {
	c := vhConstInt("constant")
	var zero uint8
	res, failed := vhLitConvert(&Lit{Kind: Int, Val: c}, vhTypeOf(zero))
	fits := vhConstFits(c, 0, 255)
	vhAssert(failed == !fits, "an untyped integer constant converts to an integer type exactly when the type can represent it")
	if !failed && fits {
		got, ok := res.(uint8)
		vhAssert(ok && got == uint8(vhConstLow64(c)), "the converted value is the constant")
	}
	vhReach("end")
}

func VH_C04_untypedInt_to_uint16() {
	c := vhConstInt("constant")
	var zero uint16
	res, failed := vhLitConvert(&Lit{Kind: Int, Val: c}, vhTypeOf(zero))
	fits := vhConstFits(c, 0, 65535)
	vhAssert(failed == !fits, "an untyped integer constant converts to an integer type exactly when the type can represent it")
	if !failed && fits {
		got, ok := res.(uint16)
		vhAssert(ok && got == uint16(vhConstLow64(c)), "the converted value is the constant")
	}
	vhReach("end")
}

func VH_C04_untypedInt_to_uint32() {
	c := vhConstInt("constant")
	var zero uint32
	res, failed := vhLitConvert(&Lit{Kind: Int, Val: c}, vhTypeOf(zero))
	fits := vhConstFits(c, 0, 4294967295)
	vhAssert(failed == !fits, "an untyped integer constant converts to an integer type exactly when the type can represent it")
	if !failed && fits {
		got, ok := res.(uint32)
		vhAssert(ok && got == uint32(vhConstLow64(c)), "the converted value is the constant")
	}
	vhReach("end")
}

func VH_C04_untypedInt_to_uint64() {
	c := vhConstInt("constant")
	var zero uint64
	res, failed := vhLitConvert(&Lit{Kind: Int, Val: c}, vhTypeOf(zero))
	fits := vhConstFits(c, 0, 18446744073709551615)
	vhAssert(failed == !fits, "an untyped integer constant converts to an integer type exactly when the type can represent it")
	if !failed && fits {
		got, ok := res.(uint64)
		vhAssert(ok && got == uint64(vhConstLow64(c)), "the converted value is the constant")
	}
	vhReach("end")
}

func VH_C04_untypedInt_to_uintptr() {
	c := vhConstInt("constant")
	var zero uintptr
	res, failed := vhLitConvert(&Lit{Kind: Int, Val: c}, vhTypeOf(zero))
	fits := vhConstFits(c, 0, 18446744073709551615)
	vhAssert(failed == !fits, "an untyped integer constant converts to an integer type exactly when the type can represent it")
	if !failed && fits {
		got, ok := res.(uintptr)
		vhAssert(ok && got == uintptr(vhConstLow64(c)), "the converted value is the constant")
	}
	vhReach("end")
}

func vhCheckUntypedToFloat(c constant.Value, got float64) {
	switch {
	case vhConstFits(c, -9223372036854775808, 9223372036854775807):
		vhAssert(vhSameF64(got, float64(int64(vhConstLow64(c)))), "the result is the constant rounded to the nearest float")
	case vhConstFits(c, 0, 18446744073709551615):
		vhAssert(vhSameF64(got, float64(vhConstLow64(c))), "the result is the constant rounded to the nearest float")
	case constant.Sign(c) > 0:
		vhAssert(got >= 18446744073709551616.0, "a constant of at least 2^64 converts to a float of at least 2^64")
	default:
		vhAssert(got <= -9223372036854775808.0, "a constant below -2^63 converts to a float below -2^63")
	}
}

func VH_C04_untypedInt_to_float64() {
	c := vhConstInt("constant")
	var zero float64
	res, failed := vhLitConvert(&Lit{Kind: Int, Val: c}, vhTypeOf(zero))
	vhAssert(!failed, "an untyped integer constant always converts to float64")
	if !failed {
		got, ok := res.(float64)
		vhAssert(ok, "the result has the target type")
		if ok {
			vhCheckUntypedToFloat(c, got)
		}
	}
	vhReach("end")
}

func VH_C04_untypedInt_to_float32() {
	c := vhConstInt("constant")
	var zero float32
	res, failed := vhLitConvert(&Lit{Kind: Int, Val: c}, vhTypeOf(zero))
	// the largest float32 is just below 2^128: constants up to 2^127 convert, constants from 2^129 overflow
	// (the exact threshold 2^128 - 2^103 lies in between and is not decided here)
	if vhConstAbsBelowPow2(c, 127) {
		vhAssert(!failed, "an untyped integer constant of magnitude below 2^127 converts to float32")
	} else if !vhConstAbsBelowPow2(c, 129) {
		vhAssert(failed, "an untyped integer constant of magnitude 2^129 or more overflows float32 and is rejected")
	}
	if !failed {
		got, ok := res.(float32)
		vhAssert(ok, "the result has the target type")
		if ok && vhConstFits(c, -9223372036854775808, 9223372036854775807) {
			vhAssert(vhSameF32(got, float32(int64(vhConstLow64(c)))), "the result is the constant rounded to the nearest float")
		} else if ok && constant.Sign(c) > 0 {
			vhAssert(got >= 9223372036854775808.0, "a constant of at least 2^63 converts to a float of at least 2^63")
		}
	}
	vhReach("end")
}

// an untyped integer constant converted to string: the UTF-8 encoding of that code point (U+FFFD when out of range)
func VH_C04_untypedInt_to_string() {
	c := vhConstInt("constant")
	var zero string
	res, failed := vhLitConvert(&Lit{Kind: Int, Val: c}, vhTypeOf(zero))
	vhAssert(!failed, "an untyped integer constant converts to string")
	if !failed {
		got, ok := res.(string)
		vhAssert(ok, "the result has the target type")
		if ok && vhConstFits(c, -9223372036854775808, 9223372036854775807) {
			vhAssert(got == string(rune32or64(int64(vhConstLow64(c)))), "the string holds the UTF-8 encoding of the code point")
		}
	}
	vhReach("end")
}
