package PKG

// C34 for container types: the methods installed by addTypeMethodsCTI (cti_method.go) on unnamed slice, array and
// map types must compute what the Go builtin / index / slice expression computes, panic exactly when it panics,
// and have the signature declared by go/types (makeSliceMethods, makeArrayMethods, makeMapMethods).

import r "reflect"

var vhElemNames = [...]string{"e0", "e1", "e2", "e3"}

// two slices with the same symbolic contents, length n and capacity n+extra (separate backing arrays)
func vhTwoSlices(pfx string, n, extra int) ([]int32, []int32) {
	a, b := make([]int32, n, n+extra), make([]int32, n, n+extra)
	for i := 0; i < n; i++ {
		a[i] = vhI32(pfx + vhElemNames[i])
		b[i] = a[i]
	}
	return a, b
}

func vhSameSlice(a, b []int32) bool {
	if len(a) != len(b) {
		return false
	}
	for i := range a {
		if a[i] != b[i] {
			return false
		}
	}
	return true
}

var vhSliceT = r.TypeOf([]int32(nil))

func VH_C34_Slice_LenCap() {
	s, _ := vhTwoSlices("s", vhPick("len", 3), vhPick("spare capacity", 3))
	ml, mc := vhCTIContainer(vhSliceT, "Len"), vhCTIContainer(vhSliceT, "Cap")
	vhAssert(ml.sig == r.TypeOf((func([]int32) int)(nil)) && mc.sig == ml.sig, "signature")
	rl, p1 := ml.call(r.ValueOf(s))
	rc, p2 := mc.call(r.ValueOf(s))
	vhAssert(!p1 && !p2, "no panic")
	if p1 || p2 {
		return
	}
	vhAssert(len(rl) == 1 && int(rl[0].Int()) == len(s), "Len() == len(s)")
	vhAssert(len(rc) == 1 && int(rc[0].Int()) == cap(s), "Cap() == cap(s)")
	vhReach("end")
}

func VH_C34_Slice_Index() {
	s, _ := vhTwoSlices("s", vhPick("len", 3), 1)
	i := vhInt("i")
	m := vhCTIContainer(vhSliceT, "Index")
	vhAssert(m.sig == r.TypeOf((func([]int32, int) int32)(nil)), "signature")
	ret, gp := m.call(r.ValueOf(s), r.ValueOf(i))
	want, wp := vhCatch_int32(func() int32 { return s[i] })
	vhAssert(gp == wp, "panics exactly when s[i] panics")
	if !gp && !wp {
		vhAssert(len(ret) == 1 && int32(ret[0].Int()) == want, "Index(i) == s[i]")
	}
	vhReach("end")
}

func VH_C34_Slice_SetIndex() {
	s, t := vhTwoSlices("s", vhPick("len", 3), 1)
	i, x := vhInt("i"), vhI32("x")
	m := vhCTIContainer(vhSliceT, "SetIndex")
	vhAssert(m.sig == r.TypeOf((func([]int32, int, int32))(nil)), "signature")
	ret, gp := m.call(r.ValueOf(s), r.ValueOf(i), r.ValueOf(x))
	wp := vhCatchVoid(func() { t[i] = x })
	vhAssert(gp == wp, "panics exactly when s[i] = x panics")
	vhAssert(len(ret) == 0, "no results")
	vhAssert(vhSameSlice(s, t), "SetIndex(i, x) has the effect of s[i] = x")
	vhReach("end")
}

func VH_C34_Slice_AddrIndex() {
	s, _ := vhTwoSlices("s", vhPick("len", 3), 1)
	i := vhInt("i")
	m := vhCTIContainer(vhSliceT, "AddrIndex")
	vhAssert(m.sig == r.TypeOf((func([]int32, int) *int32)(nil)), "signature")
	ret, gp := m.call(r.ValueOf(s), r.ValueOf(i))
	var want *int32
	wp := vhCatchVoid(func() { want = &s[i] })
	vhAssert(gp == wp, "panics exactly when &s[i] panics")
	if !gp && !wp {
		got, ok := ret[0].Interface().(*int32)
		vhAssert(ok && got == want, "AddrIndex(i) == &s[i]")
	}
	vhReach("end")
}

func vhSameView(got, want []int32) bool {
	if len(got) != len(want) || cap(got) != cap(want) {
		return false
	}
	if cap(got) > 0 {
		g, w := got[:1], want[:1]
		return &g[0] == &w[0]
	}
	return true
}

func VH_C34_Slice_Slice() {
	s, _ := vhTwoSlices("s", vhPick("len", 3), vhPick("spare capacity", 2))
	lo, hi := vhInt("lo"), vhInt("hi")
	m := vhCTIContainer(vhSliceT, "Slice")
	vhAssert(m.sig == r.TypeOf((func([]int32, int, int) []int32)(nil)), "signature")
	ret, gp := m.call(r.ValueOf(s), r.ValueOf(lo), r.ValueOf(hi))
	var want []int32
	wp := vhCatchVoid(func() { want = s[lo:hi] })
	vhAssert(gp == wp, "panics exactly when s[lo:hi] panics")
	if !gp && !wp {
		got, ok := ret[0].Interface().([]int32)
		vhAssert(ok && vhSameView(got, want), "Slice(lo, hi) is the same view as s[lo:hi]")
	}
	vhReach("end")
}

func VH_C34_Slice_Slice3() {
	s, _ := vhTwoSlices("s", vhPick("len", 3), vhPick("spare capacity", 2))
	lo, hi, max := vhInt("lo"), vhInt("hi"), vhInt("max")
	m := vhCTIContainer(vhSliceT, "Slice3")
	vhAssert(m.sig == r.TypeOf((func([]int32, int, int, int) []int32)(nil)), "signature")
	ret, gp := m.call(r.ValueOf(s), r.ValueOf(lo), r.ValueOf(hi), r.ValueOf(max))
	var want []int32
	wp := vhCatchVoid(func() { want = s[lo:hi:max] })
	vhAssert(gp == wp, "panics exactly when s[lo:hi:max] panics")
	if !gp && !wp {
		got, ok := ret[0].Interface().([]int32)
		vhAssert(ok && vhSameView(got, want), "Slice3(lo, hi, max) is the same view as s[lo:hi:max]")
	}
	vhReach("end")
}

func VH_C34_Slice_Append() {
	n, extra := vhPick("len", 3), vhPick("spare capacity", 3)
	s, t := vhTwoSlices("s", n, extra)
	add, _ := vhTwoSlices("a", vhPick("appended elements", 3), 0)
	m := vhCTIContainer(vhSliceT, "Append")
	vhAssert(m.sig == r.TypeOf((func([]int32, ...int32) []int32)(nil)), "signature")
	ret, gp := m.call(r.ValueOf(s), r.ValueOf(add))
	vhAssert(!gp, "no panic")
	if gp {
		return
	}
	want := append(t, add...)
	got, ok := ret[0].Interface().([]int32)
	vhAssert(ok && vhSameSlice(got, want), "Append(a...) has the contents of append(s, a...)")
	if ok && n > 0 && len(got) > 0 {
		vhAssert((&got[0] == &s[0]) == (&want[0] == &t[0]), "Append reuses the backing array exactly when append does")
	}
	vhReach("end")
}

func VH_C34_Slice_Copy() {
	s, t := vhTwoSlices("s", vhPick("len", 3), 0)
	src, _ := vhTwoSlices("a", vhPick("source len", 3), 0)
	m := vhCTIContainer(vhSliceT, "Copy")
	vhAssert(m.sig == r.TypeOf((func([]int32, []int32))(nil)), "signature")
	ret, gp := m.call(r.ValueOf(s), r.ValueOf(src))
	vhAssert(!gp && len(ret) == 0, "no panic, no results")
	copy(t, src)
	vhAssert(vhSameSlice(s, t), "Copy(src) has the effect of copy(s, src)")
	vhReach("end")
}

// ---- []byte: AppendString, CopyString ----

var vhBytesT = r.TypeOf([]byte(nil))

func vhTwoByteSlices(n, extra int) ([]byte, []byte) {
	a, b := make([]byte, n, n+extra), make([]byte, n, n+extra)
	for i := 0; i < n; i++ {
		a[i] = vhU8("b" + vhElemNames[i])
		b[i] = a[i]
	}
	return a, b
}

func vhSameBytes(a, b []byte) bool {
	if len(a) != len(b) {
		return false
	}
	for i := range a {
		if a[i] != b[i] {
			return false
		}
	}
	return true
}

func VH_C34_Bytes_AppendString() {
	s, t := vhTwoByteSlices(vhPick("len", 3), vhPick("spare capacity", 3))
	str := vhStr("str", 2)
	m := vhCTIContainer(vhBytesT, "AppendString")
	vhAssert(m.sig == r.TypeOf((func([]byte, string) []byte)(nil)), "signature")
	ret, gp := m.call(r.ValueOf(s), r.ValueOf(str))
	vhAssert(!gp, "no panic")
	if gp {
		return
	}
	want := append(t, str...)
	got, ok := ret[0].Interface().([]byte)
	vhAssert(ok && vhSameBytes(got, want), "AppendString(str) has the contents of append(s, str...)")
	vhReach("end")
}

func VH_C34_Bytes_CopyString() {
	s, t := vhTwoByteSlices(vhPick("len", 3), 0)
	str := vhStr("str", 2)
	m := vhCTIContainer(vhBytesT, "CopyString")
	vhAssert(m.sig == r.TypeOf((func([]byte, string))(nil)), "signature")
	ret, gp := m.call(r.ValueOf(s), r.ValueOf(str))
	vhAssert(!gp && len(ret) == 0, "no panic, no results")
	copy(t, str)
	vhAssert(vhSameBytes(s, t), "CopyString(str) has the effect of copy(s, str)")
	vhReach("end")
}

// ---- arrays: pointer receiver ----

var vhArrayT = r.TypeOf([3]int16{})

func vhTwoArrays() (*[3]int16, *[3]int16) {
	a, b := new([3]int16), new([3]int16)
	for i := 0; i < 3; i++ {
		a[i] = vhI16("a" + vhElemNames[i])
		b[i] = a[i]
	}
	return a, b
}

func VH_C34_Array_LenCap() {
	a, _ := vhTwoArrays()
	ml, mc := vhCTIContainer(vhArrayT, "Len"), vhCTIContainer(vhArrayT, "Cap")
	vhAssert(ml.sig == r.TypeOf((func(*[3]int16) int)(nil)) && mc.sig == ml.sig, "signature: pointer receiver")
	rl, p1 := ml.call(r.ValueOf(a))
	rc, p2 := mc.call(r.ValueOf(a))
	vhAssert(!p1 && !p2, "no panic")
	if p1 || p2 {
		return
	}
	vhAssert(int(rl[0].Int()) == len(a) && int(rc[0].Int()) == cap(a), "Len() == len(a), Cap() == cap(a)")
	vhReach("end")
}

func VH_C34_Array_Index() {
	a, _ := vhTwoArrays()
	i := vhInt("i")
	m := vhCTIContainer(vhArrayT, "Index")
	vhAssert(m.sig == r.TypeOf((func(*[3]int16, int) int16)(nil)), "signature")
	ret, gp := m.call(r.ValueOf(a), r.ValueOf(i))
	want, wp := vhCatch_int16(func() int16 { return a[i] })
	vhAssert(gp == wp, "panics exactly when a[i] panics")
	if !gp && !wp {
		vhAssert(int16(ret[0].Int()) == want, "Index(i) == a[i]")
	}
	vhReach("end")
}

func VH_C34_Array_SetIndex() {
	a, b := vhTwoArrays()
	i, x := vhInt("i"), vhI16("x")
	m := vhCTIContainer(vhArrayT, "SetIndex")
	vhAssert(m.sig == r.TypeOf((func(*[3]int16, int, int16))(nil)), "signature")
	_, gp := m.call(r.ValueOf(a), r.ValueOf(i), r.ValueOf(x))
	wp := vhCatchVoid(func() { b[i] = x })
	vhAssert(gp == wp, "panics exactly when a[i] = x panics")
	vhAssert(*a == *b, "SetIndex(i, x) has the effect of a[i] = x on the receiver's array")
	vhReach("end")
}

func VH_C34_Array_AddrIndex() {
	a, _ := vhTwoArrays()
	i := vhInt("i")
	m := vhCTIContainer(vhArrayT, "AddrIndex")
	vhAssert(m.sig == r.TypeOf((func(*[3]int16, int) *int16)(nil)), "signature")
	ret, gp := m.call(r.ValueOf(a), r.ValueOf(i))
	var want *int16
	wp := vhCatchVoid(func() { want = &a[i] })
	vhAssert(gp == wp, "panics exactly when &a[i] panics")
	if !gp && !wp {
		got, ok := ret[0].Interface().(*int16)
		vhAssert(ok && got == want, "AddrIndex(i) == &a[i]")
	}
	vhReach("end")
}

func VH_C34_Array_Slice() {
	a, _ := vhTwoArrays()
	lo, hi := vhInt("lo"), vhInt("hi")
	m := vhCTIContainer(vhArrayT, "Slice")
	vhAssert(m.sig == r.TypeOf((func(*[3]int16, int, int) []int16)(nil)), "signature")
	ret, gp := m.call(r.ValueOf(a), r.ValueOf(lo), r.ValueOf(hi))
	var want []int16
	wp := vhCatchVoid(func() { want = a[lo:hi] })
	vhAssert(gp == wp, "panics exactly when a[lo:hi] panics")
	if !gp && !wp {
		got, ok := ret[0].Interface().([]int16)
		vhAssert(ok && len(got) == len(want) && cap(got) == cap(want), "Slice(lo, hi) has the length and capacity of a[lo:hi]")
		if ok && cap(got) > 0 && cap(want) > 0 {
			g, w := got[:1], want[:1]
			vhAssert(&g[0] == &w[0], "Slice(lo, hi) aliases the receiver's array at lo")
		}
	}
	vhReach("end")
}

func VH_C34_Array_Slice3() {
	a, _ := vhTwoArrays()
	lo, hi, max := vhInt("lo"), vhInt("hi"), vhInt("max")
	m := vhCTIContainer(vhArrayT, "Slice3")
	vhAssert(m.sig == r.TypeOf((func(*[3]int16, int, int, int) []int16)(nil)), "signature")
	ret, gp := m.call(r.ValueOf(a), r.ValueOf(lo), r.ValueOf(hi), r.ValueOf(max))
	var want []int16
	wp := vhCatchVoid(func() { want = a[lo:hi:max] })
	vhAssert(gp == wp, "panics exactly when a[lo:hi:max] panics")
	if !gp && !wp {
		got, ok := ret[0].Interface().([]int16)
		vhAssert(ok && len(got) == len(want) && cap(got) == cap(want), "Slice3 has the length and capacity of a[lo:hi:max]")
	}
	vhReach("end")
}

func VH_C34_Array_Copy() {
	a, b := vhTwoArrays()
	n := vhPick("source len", 5)
	src := make([]int16, n)
	for i := 0; i < n; i++ {
		src[i] = vhI16("s" + vhElemNames[i%4])
	}
	m := vhCTIContainer(vhArrayT, "Copy")
	vhAssert(m.sig == r.TypeOf((func(*[3]int16, []int16))(nil)), "signature")
	_, gp := m.call(r.ValueOf(a), r.ValueOf(src))
	vhAssert(!gp, "no panic")
	copy(b[:], src)
	vhAssert(*a == *b, "Copy(src) has the effect of copy(a[:], src)")
	vhReach("end")
}

// ---- maps ----

var vhMapT = r.TypeOf(map[uint8]int32(nil))

func vhTwoMaps() (map[uint8]int32, map[uint8]int32) {
	n := vhPick("entries", 3)
	a, b := map[uint8]int32{}, map[uint8]int32{}
	for i := 0; i < n; i++ {
		k, v := vhU8("k"+vhElemNames[i]), vhI32("v"+vhElemNames[i])
		a[k] = v
		b[k] = v
	}
	return a, b
}

func vhSameMap(a, b map[uint8]int32, probe uint8) bool {
	va, oka := a[probe]
	vb, okb := b[probe]
	return len(a) == len(b) && va == vb && oka == okb
}

func VH_C34_Map_Len() {
	a, _ := vhTwoMaps()
	m := vhCTIContainer(vhMapT, "Len")
	vhAssert(m.sig == r.TypeOf((func(map[uint8]int32) int)(nil)), "signature")
	ret, gp := m.call(r.ValueOf(a))
	vhAssert(!gp, "no panic")
	if !gp {
		vhAssert(int(ret[0].Int()) == len(a), "Len() == len(m)")
	}
	vhReach("end")
}

func VH_C34_Map_Index() {
	a, _ := vhTwoMaps()
	k := vhU8("k")
	m := vhCTIContainer(vhMapT, "Index")
	vhAssert(m.sig == r.TypeOf((func(map[uint8]int32, uint8) int32)(nil)), "signature")
	ret, gp := m.call(r.ValueOf(a), r.ValueOf(k))
	vhAssert(!gp, "no panic")
	if !gp {
		vhAssert(int32(ret[0].Int()) == a[k], "Index(k) == m[k] (zero value for a missing key)")
	}
	vhReach("end")
}

func VH_C34_Map_TryIndex() {
	a, _ := vhTwoMaps()
	k := vhU8("k")
	m := vhCTIContainer(vhMapT, "TryIndex")
	vhAssert(m.sig == r.TypeOf((func(map[uint8]int32, uint8) (int32, bool))(nil)), "signature")
	ret, gp := m.call(r.ValueOf(a), r.ValueOf(k))
	vhAssert(!gp, "no panic")
	if !gp {
		v, ok := a[k]
		vhAssert(len(ret) == 2 && int32(ret[0].Int()) == v && ret[1].Bool() == ok, "TryIndex(k) == the two-value form v, ok := m[k]")
	}
	vhReach("end")
}

func VH_C34_Map_SetIndex() {
	a, b := vhTwoMaps()
	k, v, probe := vhU8("k"), vhI32("v"), vhU8("probe")
	m := vhCTIContainer(vhMapT, "SetIndex")
	vhAssert(m.sig == r.TypeOf((func(map[uint8]int32, uint8, int32))(nil)), "signature")
	_, gp := m.call(r.ValueOf(a), r.ValueOf(k), r.ValueOf(v))
	vhAssert(!gp, "no panic")
	b[k] = v
	vhAssert(vhSameMap(a, b, probe), "SetIndex(k, v) has the effect of m[k] = v")
	vhReach("end")
}

func VH_C34_Map_DelIndex() {
	a, b := vhTwoMaps()
	k, probe := vhU8("k"), vhU8("probe")
	m := vhCTIContainer(vhMapT, "DelIndex")
	vhAssert(m.sig == r.TypeOf((func(map[uint8]int32, uint8))(nil)), "signature")
	_, gp := m.call(r.ValueOf(a), r.ValueOf(k))
	vhAssert(!gp, "no panic")
	delete(b, k)
	vhAssert(vhSameMap(a, b, probe), "DelIndex(k) has the effect of delete(m, k)")
	vhReach("end")
}

func VH_C34_Slice_CopyOverlap() {
	a, b := vhTwoSlices("s", 3, 0)
	lo, hi := vhPick("dst offset", 3), vhPick("src offset", 3)
	m := vhCTIContainer(vhSliceT, "Copy")
	_, gp := m.call(r.ValueOf(a[lo:]), r.ValueOf(a[hi:]))
	vhAssert(!gp, "no panic")
	copy(b[lo:], b[hi:])
	vhAssert(vhSameSlice(a, b), "Copy between overlapping parts of one array behaves as Go's copy (memmove)")
	vhReach("end")
}
