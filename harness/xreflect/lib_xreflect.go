package PKG

import (
	r "reflect"

	"github.com/cosmos72/gomacro/go/etoken"
)

var vhCTIName string
var vhCTIMethods []r.Value
var vhNativeUniverse *Universe

// models used under the engine (PropConfig.Redirect): a type with exactly one method, named vhCTIName
func vhModelNumMethod(t *xtype) int       { return 1 }
func vhModelMethod(t *xtype, i int) Method { return Method{Name: vhCTIName} }
func vhModelGetMethods(t *xtype) *[]r.Value { return &vhCTIMethods }

// vhCTIMethod returns the function value installed for method `name` of the basic type of kind k.
func vhCTIMethod(k r.Kind, name string) r.Value {
	if vhSymbolic() {
		etoken.GENERICS = etoken.GENERICS_V2_CTI
		vhCTIName = name
		vhCTIMethods = make([]r.Value, 1)
		xt := &xtype{kind: k}
		v := &Universe{}
		v.addBasicTypeMethodsCTI(xt)
		return vhCTIMethods[0]
	}
	if vhNativeUniverse == nil {
		etoken.GENERICS = etoken.GENERICS_V2_CTI
		vhNativeUniverse = NewUniverse()
	}
	xt := unwrap(vhNativeUniverse.BasicTypes[k])
	vhNativeUniverse.addBasicTypeMethodsCTI(xt)
	for i, n := 0, xt.NumMethod(); i < n; i++ {
		if xt.Method(i).Name == name {
			return (*xt.GetMethods())[i]
		}
	}
	return r.Value{}
}
