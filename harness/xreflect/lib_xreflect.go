package PKG

import (
	r "reflect"

	"github.com/cosmos72/gomacro/go/etoken"
)

var vhCTIName string
var vhCTIMethods []r.Value
var vhNativeUniverse *Universe

// models used under the engine (PropConfig.Redirect): a type with exactly one method, named vhCTIName
func vhModelNumMethod(t *xtype) int       { return 1 }
func vhModelMethod(t *xtype, i int) Method { return Method{Name: vhCTIName} }
func vhModelGetMethods(t *xtype) *[]r.Value { return &vhCTIMethods }

// vhCTIMethod returns the function value installed for method `name` of the basic type of kind k.
func vhCTIMethod(k r.Kind, name string) r.Value {
	if vhSymbolic() {
		etoken.GENERICS = etoken.GENERICS_V2_CTI
		vhCTIName = name
		vhCTIMethods = make([]r.Value, 1)
		xt := &xtype{kind: k}
		v := &Universe{}
		v.addBasicTypeMethodsCTI(xt)
		return vhCTIMethods[0]
	}
	if vhNativeUniverse == nil {
		etoken.GENERICS = etoken.GENERICS_V2_CTI
		vhNativeUniverse = NewUniverse()
	}
	xt := unwrap(vhNativeUniverse.BasicTypes[k])
	vhNativeUniverse.addBasicTypeMethodsCTI(xt)
	for i, n := 0, xt.NumMethod(); i < n; i++ {
		if xt.Method(i).Name == name {
			return (*xt.GetMethods())[i]
		}
	}
	return r.Value{}
}

// ---- container methods (cti_method.go): array, slice, map ----

var vhMadeFn func([]r.Value) []r.Value
var vhMadeSig r.Type

// model of reflect.MakeFunc used under the engine: records the implementation and its signature
func vhModelMakeFunc(t r.Type, fn func([]r.Value) []r.Value) r.Value {
	vhMadeSig, vhMadeFn = t, fn
	return r.Value{}
}

type vhCM struct {
	fn  func([]r.Value) []r.Value // under the engine: the implementation handed to reflect.MakeFunc
	fv  r.Value                   // natively: the function made by reflect.MakeFunc
	sig r.Type
}

// call invokes the method; variadic methods receive their last argument as a slice (CallSlice convention)
func (m vhCM) call(args ...r.Value) (ret []r.Value, panicked bool) {
	defer func() {
		if recover() != nil {
			panicked = true
		}
	}()
	if vhSymbolic() {
		return m.fn(args), false
	}
	if m.fv.Type().IsVariadic() {
		return m.fv.CallSlice(args), false
	}
	return m.fv.Call(args), false
}

// vhCTIContainer returns the method `name` installed by Universe.addTypeMethodsCTI on the container type rt
func vhCTIContainer(rt r.Type, name string) vhCM {
	if vhSymbolic() {
		etoken.GENERICS = etoken.GENERICS_V2_CTI
		vhCTIName = name
		vhMadeFn, vhMadeSig = nil, nil
		xt := &xtype{kind: rt.Kind(), rtype: rt}
		v := &Universe{}
		v.addTypeMethodsCTI(xt)
		return vhCM{fn: vhMadeFn, sig: vhMadeSig}
	}
	if vhNativeUniverse == nil {
		etoken.GENERICS = etoken.GENERICS_V2_CTI
		vhNativeUniverse = NewUniverse()
	}
	xt := unwrap(vhNativeUniverse.FromReflectType(rt))
	for i, n := 0, xt.NumMethod(); i < n; i++ {
		if xt.Method(i).Name == name {
			fv := (*xt.GetMethods())[i]
			return vhCM{fv: fv, sig: fv.Type()}
		}
	}
	return vhCM{}
}

func vhCatchVoid(f func()) (panicked bool) {
	defer func() {
		if recover() != nil {
			panicked = true
		}
	}()
	f()
	return false
}
