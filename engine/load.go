package main

import (
	"fmt"
	"os"
	"path/filepath"
	"regexp"
	"sort"
	"strings"

	"golang.org/x/tools/go/packages"
	"golang.org/x/tools/go/ssa"
	"golang.org/x/tools/go/ssa/ssautil"
)

const repoDir = "/repo"
const repoMod = "github.com/cosmos72/gomacro"

var verifDir = "/verif"

// HarnessSet describes the overlay for one package.
type HarnessSet struct {
	PkgRel  string   // directory relative to /repo ("fast", "base", "." ...)
	Files   []string // harness source files (absolute paths)
	PkgName string
}

type Loaded struct {
	Prog     *ssa.Program
	Pkgs     map[string]*ssa.Package // by import path
	Overlay  map[string][]byte       // virtual path -> content
	Harness  map[string][]string     // pkg path -> harness function names
	FileOf   map[string]string       // harness func -> pkg rel dir
	LoadSecs float64
}

var reHarness = regexp.MustCompile(`(?m)^func (VH_[A-Za-z0-9_]+)\(\)`)
var rePkgClause = regexp.MustCompile(`(?m)^package (\w+)`)

func pkgPath(rel string) string {
	if rel == "." || rel == "" {
		return repoMod
	}
	return repoMod + "/" + rel
}

// pkgNameOf reads the package clause of an existing non-test file in /repo/<rel>.
func pkgNameOf(rel string) (string, error) {
	dir := filepath.Join(repoDir, rel)
	ents, err := os.ReadDir(dir)
	if err != nil {
		return "", err
	}
	for _, e := range ents {
		n := e.Name()
		if !strings.HasSuffix(n, ".go") || strings.HasSuffix(n, "_test.go") {
			continue
		}
		data, err := os.ReadFile(filepath.Join(dir, n))
		if err != nil {
			continue
		}
		if strings.Contains(string(data), "//go:build ignore") || strings.Contains(string(data), "// +build ignore") {
			continue
		}
		if m := rePkgClause.FindSubmatch(data); m != nil {
			return string(m[1]), nil
		}
	}
	return "", fmt.Errorf("no package clause found in %s", dir)
}

// buildOverlay maps harness files (and the harness library) into /repo/<rel>/zz_vh_*.go.
func buildOverlay(sets []HarnessSet, withTest bool) (map[string][]byte, map[string][]string, error) {
	ov := map[string][]byte{}
	names := map[string][]string{}
	lib, err := os.ReadFile(filepath.Join(verifDir, "harness/lib/vhlib.go.txt"))
	if err != nil {
		return nil, nil, err
	}
	tst, err := os.ReadFile(filepath.Join(verifDir, "harness/lib/vhreplay_test.go.txt"))
	if err != nil {
		return nil, nil, err
	}
	for _, hs := range sets {
		pn, err := pkgNameOf(hs.PkgRel)
		if err != nil {
			return nil, nil, err
		}
		dir := filepath.Join(repoDir, hs.PkgRel)
		ov[filepath.Join(dir, "zz_vh_lib.go")] = []byte(strings.Replace(string(lib), "package PKG", "package "+pn, 1))
		var hn []string
		for _, f := range hs.Files {
			data, err := os.ReadFile(f)
			if err != nil {
				return nil, nil, err
			}
			src := rePkgClause.ReplaceAllString(string(data), "package "+pn)
			base := strings.TrimSuffix(filepath.Base(f), ".txt")
			ov[filepath.Join(dir, "zz_vh_"+base)] = []byte(src)
			for _, m := range reHarness.FindAllStringSubmatch(src, -1) {
				hn = append(hn, m[1])
			}
		}
		sort.Strings(hn)
		names[pkgPath(hs.PkgRel)] = hn
		if withTest {
			var b strings.Builder
			b.WriteString(strings.Replace(string(tst), "package PKG", "package "+pn, 1))
			b.WriteString("\nvar vhHarnesses = map[string]func(){\n")
			for _, n := range hn {
				fmt.Fprintf(&b, "\t%q: %s,\n", n, n)
			}
			b.WriteString("}\n")
			ov[filepath.Join(dir, "zz_vh_replay_test.go")] = []byte(b.String())
		}
	}
	return ov, names, nil
}

func loadProgram(sets []HarnessSet, extraPkgs []string) (*Loaded, error) {
	ov, names, err := buildOverlay(sets, false)
	if err != nil {
		return nil, err
	}
	var patterns []string
	for _, hs := range sets {
		patterns = append(patterns, pkgPath(hs.PkgRel))
	}
	patterns = append(patterns, extraPkgs...)
	cfg := &packages.Config{
		Mode:    packages.LoadAllSyntax,
		Dir:     repoDir,
		Overlay: ov,
		Env:     append(os.Environ(), "GOFLAGS=-mod=mod", "GOPROXY=off", "GOSUMDB=off", "GOTOOLCHAIN=local", "GOWORK=off"),
	}
	pkgs, err := packages.Load(cfg, patterns...)
	if err != nil {
		return nil, err
	}
	var errs []string
	packages.Visit(pkgs, nil, func(p *packages.Package) {
		for _, e := range p.Errors {
			errs = append(errs, e.Error())
		}
	})
	if len(errs) > 0 {
		if len(errs) > 10 {
			errs = errs[:10]
		}
		return nil, fmt.Errorf("packages do not type-check with the harness overlay:\n  %s", strings.Join(errs, "\n  "))
	}
	prog, spkgs := ssautil.AllPackages(pkgs, ssa.InstantiateGenerics)
	prog.Build()
	l := &Loaded{Prog: prog, Pkgs: map[string]*ssa.Package{}, Overlay: ov, Harness: names}
	for _, p := range prog.AllPackages() {
		l.Pkgs[p.Pkg.Path()] = p
	}
	_ = spkgs
	return l, nil
}
