package main

// Query slicing and alpha-equivalence caching.
//
// slice: only the path-condition conjuncts that share (transitively) a symbol with the goal are sent
// to the solver.  Sound for "unsat" (a subset of the assertions is already contradictory); a "sat"
// answer for the slice carries over to the whole query because the dropped conjuncts mention disjoint
// symbols and the path condition as a whole is satisfiable — but counterexample models are always
// taken from the full query.
//
// cache: verdicts are remembered under the query text with symbols renamed in order of appearance
// (plus their sorts), so that the same obligation reached on another path / frame shape / harness
// is not solved again.

import (
	"regexp"
	"strings"
	"sync"
	"sync/atomic"
	"time"
)

var symRe = regexp.MustCompile(`v[0-9]+_[A-Za-z0-9_]*`)

var verdictCache sync.Map // normalised query -> "sat" | "unsat"
var cacheHits, cacheMisses, slicedAway int64

func (s *Solver) symsOf(t *Term) []string {
	if t.syms != nil || t.symsDone {
		return t.syms
	}
	seen := map[string]bool{}
	var out []string
	for _, m := range symRe.FindAllString(t.S, -1) {
		if !seen[m] {
			seen[m] = true
			out = append(out, m)
		}
	}
	t.syms, t.symsDone = out, true
	return out
}

// sliceAsserts returns the conjuncts of pc relevant to the goal terms (cone of influence), goals last.
func (s *Solver) sliceAsserts(pc []*Term, goals ...*Term) []*Term {
	rel := map[string]bool{}
	for _, g := range goals {
		for _, x := range s.symsOf(g) {
			rel[x] = true
		}
	}
	in := make([]bool, len(pc))
	for changed := true; changed; {
		changed = false
		for i, a := range pc {
			if in[i] {
				continue
			}
			sy := s.symsOf(a)
			hit := len(sy) == 0 && !a.Const
			for _, x := range sy {
				if rel[x] {
					hit = true
					break
				}
			}
			if hit {
				in[i] = true
				changed = true
				for _, x := range sy {
					rel[x] = true
				}
			}
		}
	}
	var out []*Term
	for i, a := range pc {
		if in[i] {
			out = append(out, a)
		} else if !(a.Const && a.U == 1) {
			atomic.AddInt64(&slicedAway, 1)
		}
	}
	return append(out, goals...)
}

func (s *Solver) normKey(asserts []*Term) string {
	idx := map[string]string{}
	var sorts []string
	var b strings.Builder
	b.WriteString(s.name)
	b.WriteByte('|')
	for _, a := range asserts {
		if a.Const && a.U == 1 {
			continue
		}
		b.WriteString(symRe.ReplaceAllStringFunc(a.S, func(m string) string {
			if r, ok := idx[m]; ok {
				return r
			}
			so, ok := s.sorts[m]
			if !ok {
				return m
			}
			r := "$" + itoa(len(idx))
			idx[m] = r
			sorts = append(sorts, so)
			return r
		}))
		b.WriteByte('\n')
	}
	b.WriteString(strings.Join(sorts, ","))
	b.WriteString("|uf:")
	b.WriteString(s.ufSig)
	return b.String()
}

func itoa(n int) string {
	if n == 0 {
		return "0"
	}
	var d []byte
	for n > 0 {
		d = append([]byte{byte('0' + n%10)}, d...)
		n /= 10
	}
	return string(d)
}

// CheckCached: verdict for pc ∧ goals using slicing and the verdict cache.
func (s *Solver) CheckCached(pc []*Term, goals ...*Term) string {
	sl := s.sliceAsserts(pc, goals...)
	key := s.normKey(sl)
	if v, ok := verdictCache.Load(key); ok {
		atomic.AddInt64(&cacheHits, 1)
		return v.(string)
	}
	atomic.AddInt64(&cacheMisses, 1)
	r := s.Check(sl)
	if r == "sat" || r == "unsat" {
		verdictCache.Store(key, r)
	}
	return r
}

// DecideCached is CheckCached plus the fallback portfolio; "unknown" is cached too, so that an
// undecidable shape costs its time-outs once and not once per path.
func (s *Solver) DecideCached(pc []*Term, budget time.Duration, goals ...*Term) string {
	sl := s.sliceAsserts(pc, goals...)
	key := "D|" + s.normKey(sl)
	if v, ok := verdictCache.Load(key); ok {
		atomic.AddInt64(&cacheHits, 1)
		return v.(string)
	}
	atomic.AddInt64(&cacheMisses, 1)
	r := s.Check(sl)
	if r == "unknown" {
		r, _, _ = s.fallback(sl, nil, budget)
	}
	verdictCache.Store(key, r)
	return r
}
