package main

import (
	"go/token"
	"go/types"

	"golang.org/x/tools/go/ssa"
)

// binop evaluates a BinOp; ok=false means st could not continue normally (it panicked).
func (ex *Exec) binop(st *State, op token.Token, a, b Value, ta, tb types.Type) (Value, bool) {
	switch x := a.(type) {
	case *Term:
		y, ok := b.(*Term)
		if !ok {
			unsupported("binop %s on *Term and %T", op, b)
		}
		return ex.binopTerm(st, op, x, y, ta, tb)
	case Complex:
		y := b.(Complex)
		switch op {
		case token.ADD:
			return Complex{fpBin("fp.add", x.Re, y.Re), fpBin("fp.add", x.Im, y.Im)}, true
		case token.SUB:
			return Complex{fpBin("fp.sub", x.Re, y.Re), fpBin("fp.sub", x.Im, y.Im)}, true
		case token.MUL:
			// gc computes complex64 products in float64 and narrows the two results (cmd/compile ssagen:
			// "Compute in Float64 to minimize cancellation error")
			w := x.Re.Sort.W
			xr, xi, yr, yi := FPConvert(x.Re, 64), FPConvert(x.Im, 64), FPConvert(y.Re, 64), FPConvert(y.Im, 64)
			re := fpBin("fp.sub", fpBin("fp.mul", xr, yr), fpBin("fp.mul", xi, yi))
			im := fpBin("fp.add", fpBin("fp.mul", xr, yi), fpBin("fp.mul", xi, yr))
			return Complex{FPConvert(re, w), FPConvert(im, w)}, true
		case token.QUO:
			// complex64 division = complex128 division of the widened operands, narrowed (as gc does)
			if x.Re.Sort.W == 32 {
				q := ex.complexDiv(Complex{FPConvert(x.Re, 64), FPConvert(x.Im, 64)}, Complex{FPConvert(y.Re, 64), FPConvert(y.Im, 64)}).(Complex)
				return Complex{FPConvert(q.Re, 32), FPConvert(q.Im, 32)}, true
			}
			return ex.complexDiv(x, y), true
		case token.EQL:
			return And(fpCmp("fp.eq", x.Re, y.Re), fpCmp("fp.eq", x.Im, y.Im)), true
		case token.NEQ:
			return Not(And(fpCmp("fp.eq", x.Re, y.Re), fpCmp("fp.eq", x.Im, y.Im))), true
		}
		unsupported("complex binop %s", op)
	}
	switch op {
	case token.EQL:
		return ex.valEq(a, b), true
	case token.NEQ:
		return Not(ex.valEq(a, b)), true
	}
	unsupported("binop %s on %T and %T", op, a, b)
	return nil, false
}

// complexDiv is left uninterpreted (same symbol on both sides of an equivalence).
func (ex *Exec) complexDiv(x, y Complex) Value {
	w := x.Re.Sort.W
	name := "cdiv_re64"
	name2 := "cdiv_im64"
	if w == 32 {
		name, name2 = "cdiv_re32", "cdiv_im32"
	}
	ex.declareUF(name, []Sort{x.Re.Sort, x.Re.Sort, x.Re.Sort, x.Re.Sort}, x.Re.Sort)
	ex.declareUF(name2, []Sort{x.Re.Sort, x.Re.Sort, x.Re.Sort, x.Re.Sort}, x.Re.Sort)
	return Complex{app(x.Re.Sort, name, x.Re, x.Im, y.Re, y.Im), app(x.Re.Sort, name2, x.Re, x.Im, y.Re, y.Im)}
}

func (ex *Exec) declareUF(name string, args []Sort, res Sort) {
	if ex.stubSeen["uf:"+name] {
		return
	}
	ex.stubSeen["uf:"+name] = true
	ex.solver.DeclareFun(name, args, res)
}

func (ex *Exec) binopTerm(st *State, op token.Token, x, y *Term, ta, tb types.Type) (Value, bool) {
	switch x.Sort.K {
	case SBool:
		switch op {
		case token.EQL:
			return Eq(x, y), true
		case token.NEQ:
			return Not(Eq(x, y)), true
		case token.AND, token.LAND:
			return And(x, y), true
		case token.OR, token.LOR:
			return Or(x, y), true
		}
	case SString:
		switch op {
		case token.ADD:
			return ex.concat(st, x, y), true
		case token.EQL:
			return Eq(x, y), true
		case token.NEQ:
			return Not(Eq(x, y)), true
		case token.LSS:
			return StrLt(x, y), true
		case token.LEQ:
			return StrLe(x, y), true
		case token.GTR:
			return StrLt(y, x), true
		case token.GEQ:
			return StrLe(y, x), true
		}
	case SFP:
		switch op {
		case token.ADD:
			return fpBin("fp.add", x, y), true
		case token.SUB:
			return fpBin("fp.sub", x, y), true
		case token.MUL:
			return fpBin("fp.mul", x, y), true
		case token.QUO:
			return fpBin("fp.div", x, y), true
		case token.EQL:
			return fpCmp("fp.eq", x, y), true
		case token.NEQ:
			return Not(fpCmp("fp.eq", x, y)), true
		case token.LSS:
			return fpCmp("fp.lt", x, y), true
		case token.LEQ:
			return fpCmp("fp.leq", x, y), true
		case token.GTR:
			return fpCmp("fp.gt", x, y), true
		case token.GEQ:
			return fpCmp("fp.geq", x, y), true
		}
	case SBV:
		signed := isSigned(ta)
		w := x.Sort.W
		switch op {
		case token.SHL, token.SHR:
			return ex.shift(st, op, x, y, signed, isSigned(tb))
		}
		if y.Sort != x.Sort {
			unsupported("binop %s width mismatch %d/%d", op, x.Sort.W, y.Sort.W)
		}
		switch op {
		case token.ADD:
			return bvBin("bvadd", x, y), true
		case token.SUB:
			return bvBin("bvsub", x, y), true
		case token.MUL:
			return bvBin("bvmul", x, y), true
		case token.AND:
			return bvBin("bvand", x, y), true
		case token.OR:
			return bvBin("bvor", x, y), true
		case token.XOR:
			return bvBin("bvxor", x, y), true
		case token.AND_NOT:
			return bvBin("bvand", x, BVNot(y)), true
		case token.QUO, token.REM:
			if !ex.guard(st, Not(Eq(y, BVC(w, 0))), "integer divide by zero") {
				return nil, false
			}
			if signed {
				if op == token.QUO {
					return bvBin("bvsdiv", x, y), true
				}
				return bvBin("bvsrem", x, y), true
			}
			if op == token.QUO {
				return bvBin("bvudiv", x, y), true
			}
			return bvBin("bvurem", x, y), true
		case token.EQL:
			return Eq(x, y), true
		case token.NEQ:
			return Not(Eq(x, y)), true
		case token.LSS:
			if signed {
				return bvCmp("bvslt", x, y), true
			}
			return bvCmp("bvult", x, y), true
		case token.LEQ:
			if signed {
				return bvCmp("bvsle", x, y), true
			}
			return bvCmp("bvule", x, y), true
		case token.GTR:
			if signed {
				return bvCmp("bvsgt", x, y), true
			}
			return bvCmp("bvugt", x, y), true
		case token.GEQ:
			if signed {
				return bvCmp("bvsge", x, y), true
			}
			return bvCmp("bvuge", x, y), true
		}
	}
	unsupported("binop %s on sort %s", op, x.Sort)
	return nil, false
}

// shift implements Go's << and >>: count >= width gives 0 / sign fill; negative signed count panics.
func (ex *Exec) shift(st *State, op token.Token, x, y *Term, xSigned, ySigned bool) (Value, bool) {
	w := x.Sort.W
	cw := y.Sort.W
	if ySigned {
		if !ex.guard(st, bvCmp("bvsge", y, BVC(cw, 0)), "negative shift amount") {
			return nil, false
		}
	}
	// saturate the count into x's width
	var cnt *Term
	var big *Term
	if cw > w {
		big = bvCmp("bvuge", y, BVC(cw, uint64(w)))
		cnt = Extract(w-1, 0, y)
	} else {
		cnt = ZeroExt(w, y)
		big = bvCmp("bvuge", cnt, BVC(w, uint64(w)))
	}
	switch {
	case op == token.SHL:
		return Ite(big, BVC(w, 0), bvBin("bvshl", x, cnt)), true
	case xSigned:
		return Ite(big, bvBin("bvashr", x, BVC(w, uint64(w-1))), bvBin("bvashr", x, cnt)), true
	default:
		return Ite(big, BVC(w, 0), bvBin("bvlshr", x, cnt)), true
	}
}

// valEq: Go's == on non-scalar comparable values.
func (ex *Exec) valEq(a, b Value) *Term {
	switch x := a.(type) {
	case *Term:
		y, ok := b.(*Term)
		if !ok {
			return False
		}
		if x.Sort != y.Sort {
			return False
		}
		if x.Sort.K == SFP {
			return fpCmp("fp.eq", x, y)
		}
		return Eq(x, y)
	case Complex:
		y, ok := b.(Complex)
		if !ok {
			return False
		}
		return And(fpCmp("fp.eq", x.Re, y.Re), fpCmp("fp.eq", x.Im, y.Im))
	case Ptr:
		switch y := b.(type) {
		case Ptr:
			return BoolC(ptrEq(x, y))
		case *Closure, XType:
			return BoolC(x.IsNil() && isNilValue(b))
		}
		return False
	case Iface:
		y, ok := b.(Iface)
		if !ok {
			unsupported("== between interface and %T", b)
		}
		if x.T == nil || y.T == nil {
			return BoolC(x.T == nil && y.T == nil)
		}
		if !types.Identical(x.T, y.T) {
			return False
		}
		return ex.valEq(x.V, y.V)
	case *StructV:
		y, ok := b.(*StructV)
		if !ok || len(x.F) != len(y.F) {
			return False
		}
		var cs []*Term
		for i := range x.F {
			cs = append(cs, ex.valEq(x.F[i], y.F[i]))
		}
		return And(cs...)
	case *ArrV:
		y, ok := b.(*ArrV)
		if !ok || len(x.Elems) != len(y.Elems) {
			return False
		}
		var cs []*Term
		for i := range x.Elems {
			cs = append(cs, ex.valEq(x.Elems[i], y.Elems[i]))
		}
		return And(cs...)
	case *Closure:
		// only comparison with nil is legal Go
		return BoolC(x == nil && isNilValue(b) || isNilValue(a) && isNilValue(b))
	case SliceV:
		return BoolC(x.Obj == 0 && isNilValue(b))
	case MapV:
		if y, ok := b.(MapV); ok {
			return BoolC(x.Obj == y.Obj)
		}
		return BoolC(x.Obj == 0 && isNilValue(b))
	case XType:
		if y, ok := b.(XType); ok {
			return BoolC(x.T == nil && y.T == nil)
		}
		return BoolC(x.T == nil && isNilValue(b))
	case RType:
		if y, ok := b.(RType); ok {
			if x.T == nil || y.T == nil {
				return BoolC(x.T == nil && y.T == nil)
			}
			return BoolC(types.Identical(x.T, y.T))
		}
		return BoolC(x.T == nil && isNilValue(b))
	case RValue:
		// == on reflect.Value structs compares (type, data pointer, flags)
		y, ok := b.(RValue)
		if !ok {
			return False
		}
		if x.T == nil || y.T == nil {
			return BoolC(x.T == nil && y.T == nil)
		}
		if !types.Identical(x.T, y.T) {
			return False
		}
		if x.Loc != nil && y.Loc != nil {
			return BoolC(ptrEq(*x.Loc, *y.Loc))
		}
		if (x.Loc != nil) != (y.Loc != nil) {
			return False // the addressable flag differs
		}
		if s, isS := x.T.Underlying().(*types.Struct); isS && s.NumFields() == 0 {
			return True
		}
		if px, okx := x.Imm.(Ptr); okx {
			if py, oky := y.Imm.(Ptr); oky {
				return BoolC(ptrEq(px, py))
			}
		}
		if cx, okx := x.Imm.(*Closure); okx {
			// ValueOf(f): the data word points to the function value; two Values are equal iff they hold the
			// same function value (closure identity in the engine)
			if cy, oky := y.Imm.(*Closure); oky {
				return BoolC(cx == cy)
			}
		}
		unsupported("== on reflect.Value of type %s (data pointer identity not modelled)", x.T)
	case Opaque:
		if y, ok := b.(Opaque); ok {
			return BoolC(x.ID == y.ID)
		}
		return False
	}
	unsupported("== on %T and %T", a, b)
	return nil
}

func isNilValue(v Value) bool {
	switch x := v.(type) {
	case nil:
		return true
	case Ptr:
		return x.IsNil()
	case *Closure:
		return x == nil
	case SliceV:
		return x.Obj == 0
	case MapV:
		return x.Obj == 0
	case Iface:
		return x.T == nil
	case XType:
		return x.T == nil
	case RType:
		return x.T == nil
	}
	return false
}

func ptrEq(a, b Ptr) bool {
	if a.Obj != b.Obj || len(a.Path) != len(b.Path) {
		return false
	}
	for i := range a.Path {
		if a.Path[i] != b.Path[i] {
			return false
		}
	}
	return true
}

// ---------- conversions ----------

func (ex *Exec) convert(st *State, v Value, from, to types.Type) Value {
	fu, tu := from.Underlying(), to.Underlying()
	// pointer <-> unsafe.Pointer
	if p, ok := v.(Ptr); ok {
		if tp, ok := tu.(*types.Pointer); ok {
			np := p
			np.View = nil
			if !p.IsNil() {
				// does the target element type differ from what is stored there?
				np.View = tp.Elem()
				if raw := ex.tryLoadRaw(st, Ptr{Obj: p.Obj, Path: p.Path}); raw != nil {
					if viewMatches(raw, tp.Elem()) {
						np.View = nil
					}
				}
			}
			return np
		}
		if tb, ok := tu.(*types.Basic); ok && tb.Kind() == types.UnsafePointer {
			return p
		}
		if tb, ok := tu.(*types.Basic); ok && tb.Kind() == types.Uintptr {
			unsupported("pointer to uintptr conversion")
		}
	}
	switch x := v.(type) {
	case *Term:
		tb, ok := tu.(*types.Basic)
		if !ok {
			if _, isSlice := tu.(*types.Slice); isSlice && x.Sort.K == SString {
				return ex.stringToBytes(st, x, tu.(*types.Slice))
			}
			unsupported("convert scalar to %s", to)
		}
		fb, _ := fu.(*types.Basic)
		switch {
		case tb.Info()&types.IsInteger != 0:
			w := intWidth(tb.Kind())
			switch x.Sort.K {
			case SBV:
				return Resize(x, w, isSigned(from))
			case SFP:
				return FPToInt(x, isSigned(to), w)
			}
		case tb.Info()&types.IsFloat != 0:
			w := 64
			if tb.Kind() == types.Float32 {
				w = 32
			}
			switch x.Sort.K {
			case SBV:
				return IntToFP(x, isSigned(from), w)
			case SFP:
				return FPConvert(x, w)
			}
		case tb.Info()&types.IsString != 0:
			if x.Sort.K == SString {
				return x
			}
			if x.Sort.K == SBV && fb != nil {
				return ex.intToString(x, isSigned(from))
			}
		case tb.Info()&types.IsBoolean != 0:
			return x
		}
	case Complex:
		tb, ok := tu.(*types.Basic)
		if ok && tb.Info()&types.IsComplex != 0 {
			w := 64
			if tb.Kind() == types.Complex64 {
				w = 32
			}
			return Complex{FPConvert(x.Re, w), FPConvert(x.Im, w)}
		}
	case SliceV:
		if tb, ok := tu.(*types.Basic); ok && tb.Info()&types.IsString != 0 {
			return ex.bytesToString(st, x)
		}
	}
	unsupported("conversion of %T from %s to %s", v, from, to)
	return nil
}

func (ex *Exec) tryLoadRaw(st *State, p Ptr) (v Value) {
	defer func() {
		if r := recover(); r != nil {
			v = nil
		}
	}()
	return ex.loadRaw(st, p)
}

// viewMatches: is the stored value already of the pointer's element type (no reinterpretation needed)?
func viewMatches(raw Value, elem types.Type) bool {
	s, ok := sortOf(elem)
	switch x := raw.(type) {
	case *Term:
		return ok && x.Sort == s
	case Complex:
		k, okk := basicKind(elem)
		return okk && (k == types.Complex128 && x.Re.Sort.W == 64 || k == types.Complex64 && x.Re.Sort.W == 32)
	case *StructV:
		_, isS := elem.Underlying().(*types.Struct)
		return isS
	case *ArrV:
		_, isA := elem.Underlying().(*types.Array)
		return isA
	case Ptr:
		_, isP := elem.Underlying().(*types.Pointer)
		return isP
	}
	return true
}

// intToString: string(rune) — UTF-8 encoding; only bytes < 0x80 are modelled exactly, the rest uninterpreted.
func (ex *Exec) intToString(x *Term, signed bool) Value {
	if x.Const && x.U < 0x80 {
		return StrC(string(rune(x.U)))
	}
	// string(i): the UTF-8 encoding of code point i; every value that is not a valid code point (negative, beyond
	// U+10FFFF, surrogates) yields the encoding of U+FFFD.  The encoding itself is an uninterpreted function.
	ex.declareUF("utf8enc", []Sort{BVSort(64)}, StrSort)
	w := Resize(x, 64, signed)
	valid := And(bvCmp("bvule", w, BVC(64, 0x10FFFF)), Or(bvCmp("bvult", w, BVC(64, 0xD800)), bvCmp("bvugt", w, BVC(64, 0xDFFF))))
	if signed {
		valid = And(valid, bvCmp("bvsge", w, BVC(64, 0)))
	}
	return app(StrSort, "utf8enc", Ite(valid, w, BVC(64, 0xFFFD)))
}

func (ex *Exec) stringToBytes(st *State, s *Term, t *types.Slice) Value {
	if !s.Const {
		unsupported("[]byte(s) of a symbolic string")
	}
	a := &ArrV{Elems: make([]Value, len(s.Str))}
	for i := range a.Elems {
		a.Elems[i] = BVC(8, uint64(s.Str[i]))
	}
	id := ex.alloc(st, a)
	n := BVC(64, uint64(len(s.Str)))
	return SliceV{Obj: id, Len: n, Cap: n}
}

func (ex *Exec) bytesToString(st *State, s SliceV) Value {
	if !s.Len.Const {
		unsupported("string(b) with symbolic length")
	}
	if s.Obj == 0 {
		return StrC("")
	}
	arr := st.heap[s.Obj].(*ArrV)
	out := StrC("")
	for i := 0; i < int(s.Len.U); i++ {
		out = ex.concat(st, out, StrFromByte(arr.Elems[s.Off+i].(*Term)))
	}
	return out
}

// ---------- indexing ----------

// concretize forks st over the feasible concrete values lo..hi-1 of idx (BV term); for each value it
// calls f on the (possibly forked) state.  Values outside are the caller's business (guard first).
func (ex *Exec) concretize(st *State, idx *Term, n int, f func(s *State, i int)) {
	if idx.Const {
		f(st, int(idx.U))
		return
	}
	cur := st
	for i := 0; i < n; i++ {
		if cur == nil {
			return
		}
		c := Eq(idx, BVC(idx.Sort.W, uint64(i)))
		if i == n-1 {
			// last alternative: take it if feasible
			if ex.feasible(cur, c) != "unsat" {
				cur.addPC(c)
				f(cur, i)
				if cur != st {
					ex.push(cur)
				}
			} else if cur != st {
				// nothing
			} else {
				st.status = "killed:infeasible"
			}
			return
		}
		yes, no := ex.branch(cur, c)
		if yes != nil {
			// yes reuses cur; 'no' is a fork (or nil)
			f(yes, i)
			if yes != st {
				ex.push(yes)
			}
		}
		cur = no
	}
}

func idx64(v Value, t types.Type) *Term {
	x := v.(*Term)
	return Resize(x, 64, isSigned(t))
}

func (ex *Exec) indexAddr(st *State, fr *Frame, x *ssa.IndexAddr) {
	base := ex.get(st, fr, x.X)
	idx := idx64(ex.get(st, fr, x.Index), x.Index.Type())
	switch b := base.(type) {
	case SliceV:
		if !ex.guard(st, bvCmp("bvult", idx, b.Len), "index out of range") {
			return
		}
		if !b.Len.Const && !idx.Const {
			// bound the enumeration by the backing array
		}
		n := ex.arrLen(st, b.Obj) - b.Off
		ex.concretize(st, idx, n, func(s *State, i int) {
			f := s.top()
			f.regs[x] = Ptr{Obj: b.Obj, Path: []PathElem{{Field: -1, Idx: b.Off + i}}}
			f.ip++
		})
	case Ptr:
		if b.IsNil() {
			ex.raise(st, Iface{T: runtimeErrorType, V: StrC("nil dereference")}, "nil dereference")
			return
		}
		at := x.X.Type().Underlying().(*types.Pointer).Elem().Underlying().(*types.Array)
		n := int(at.Len())
		if !ex.guard(st, bvCmp("bvult", idx, BVC(64, uint64(n))), "index out of range") {
			return
		}
		ex.concretize(st, idx, n, func(s *State, i int) {
			f := s.top()
			f.regs[x] = Ptr{Obj: b.Obj, Path: append(append([]PathElem(nil), b.Path...), PathElem{Field: -1, Idx: i})}
			f.ip++
		})
	default:
		unsupported("IndexAddr on %T", base)
	}
}

func (ex *Exec) arrLen(st *State, obj int) int {
	if obj == 0 {
		return 0
	}
	a, ok := st.heap[obj].(*ArrV)
	if !ok {
		unsupported("slice backing object is %T", st.heap[obj])
	}
	return len(a.Elems)
}

func (ex *Exec) index(st *State, fr *Frame, x *ssa.Index) {
	base := ex.get(st, fr, x.X)
	idx := idx64(ex.get(st, fr, x.Index), x.Index.Type())
	switch b := base.(type) {
	case *Term: // string
		if !ex.guard(st, bvCmp("bvult", idx, StrLen(b)), "index out of range") {
			return
		}
		f := st.top()
		f.regs[x] = StrAt(b, idx)
		f.ip++
	case *ArrV:
		n := len(b.Elems)
		if !ex.guard(st, bvCmp("bvult", idx, BVC(64, uint64(n))), "index out of range") {
			return
		}
		ex.concretize(st, idx, n, func(s *State, i int) {
			f := s.top()
			f.regs[x] = b.Elems[i]
			f.ip++
		})
	default:
		unsupported("Index on %T", base)
	}
}

func (ex *Exec) concreteInt(t *Term, what string) int {
	if !t.Const {
		unsupported("%s must be concrete, got %s", what, t.S)
	}
	return int(t.U)
}

func (ex *Exec) slice(st *State, fr *Frame, x *ssa.Slice) {
	base := ex.get(st, fr, x.X)
	var lo, hi, max *Term
	if x.Low != nil {
		lo = idx64(ex.get(st, fr, x.Low), x.Low.Type())
	} else {
		lo = BVC(64, 0)
	}
	if x.High != nil {
		hi = idx64(ex.get(st, fr, x.High), x.High.Type())
	}
	if x.Max != nil {
		max = idx64(ex.get(st, fr, x.Max), x.Max.Type())
	}
	switch b := base.(type) {
	case *Term: // string
		n := StrLen(b)
		if hi == nil {
			hi = n
		}
		ok := And(bvCmp("bvule", lo, hi), bvCmp("bvule", hi, n))
		if !ex.guard(st, ok, "slice bounds out of range") {
			return
		}
		f := st.top()
		f.regs[x] = ex.nameTerm(st, StrSub(ex.nameTerm(st, b, "s"), lo, hi), "sub")
		f.ip++
	case SliceV:
		capT := b.Cap
		if hi == nil {
			hi = b.Len
		}
		if max == nil {
			max = capT
		}
		ok := And(bvCmp("bvule", lo, hi), bvCmp("bvule", hi, max), bvCmp("bvule", max, capT))
		if !ex.guard(st, ok, "slice bounds out of range") {
			return
		}
		n := ex.arrLen(st, b.Obj) - b.Off + 1
		ex.concretize(st, lo, n, func(s *State, l int) {
			f := s.top()
			sv := SliceV{Obj: b.Obj, Off: b.Off + l, Len: bvBin("bvsub", hi, BVC(64, uint64(l))), Cap: bvBin("bvsub", max, BVC(64, uint64(l)))}
			if b.Obj == 0 {
				sv = SliceV{Len: BVC(64, 0), Cap: BVC(64, 0)}
			}
			f.regs[x] = sv
			f.ip++
		})
	case Ptr: // *array
		if b.IsNil() {
			ex.raise(st, Iface{T: runtimeErrorType, V: StrC("nil dereference")}, "nil dereference")
			return
		}
		at := x.X.Type().Underlying().(*types.Pointer).Elem().Underlying().(*types.Array)
		n := BVC(64, uint64(at.Len()))
		if hi == nil {
			hi = n
		}
		if max == nil {
			max = n
		}
		ok := And(bvCmp("bvule", lo, hi), bvCmp("bvule", hi, max), bvCmp("bvule", max, n))
		if !ex.guard(st, ok, "slice bounds out of range") {
			return
		}
		if len(b.Path) != 0 {
			unsupported("slicing an array embedded in another object")
		}
		ex.concretize(st, lo, int(at.Len())+1, func(s *State, l int) {
			f := s.top()
			f.regs[x] = SliceV{Obj: b.Obj, Off: l, Len: bvBin("bvsub", hi, BVC(64, uint64(l))), Cap: bvBin("bvsub", max, BVC(64, uint64(l)))}
			f.ip++
		})
	default:
		unsupported("Slice on %T", base)
	}
}

const maxMakeLen = 64

func (ex *Exec) makeSlice(st *State, fr *Frame, x *ssa.MakeSlice) {
	ln := idx64(ex.get(st, fr, x.Len), x.Len.Type())
	cp := idx64(ex.get(st, fr, x.Cap), x.Cap.Type())
	elem := x.Type().Underlying().(*types.Slice).Elem()
	if !ex.guard(st, And(bvCmp("bvsge", ln, BVC(64, 0)), bvCmp("bvsle", ln, cp)), "makeslice: len out of range") {
		return
	}
	if !cp.Const {
		// enumerate small capacities
		if ex.feasible(st, bvCmp("bvugt", cp, BVC(64, maxMakeLen))) != "unsat" {
			unsupported("make with symbolic capacity not bounded by %d", maxMakeLen)
		}
	}
	ex.concretize(st, cp, maxMakeLen+1, func(s *State, c int) {
		a := &ArrV{Elems: make([]Value, c)}
		if c > 0 {
			z := zeroValue(elem)
			for i := range a.Elems {
				a.Elems[i] = z
			}
		}
		id := ex.alloc(s, a)
		f := s.top()
		f.regs[x] = SliceV{Obj: id, Len: ln, Cap: BVC(64, uint64(c))}
		f.ip++
	})
}

// ---------- type assertions ----------

func (ex *Exec) dynType(v Value) types.Type {
	i, ok := v.(Iface)
	if !ok {
		unsupported("type assertion on %T", v)
	}
	return i.T
}

func (ex *Exec) typeAssert(st *State, fr *Frame, x *ssa.TypeAssert) {
	v := ex.get(st, fr, x.X)
	i, ok := v.(Iface)
	if !ok {
		unsupported("type assertion on %T", v)
	}
	match := false
	var res Value
	if i.T != nil {
		if it, isI := x.AssertedType.Underlying().(*types.Interface); isI {
			match = types.Implements(i.T, it)
			res = i
		} else {
			match = types.Identical(i.T, x.AssertedType)
			res = i.V
		}
	}
	if x.CommaOk {
		if !match {
			res = zeroValue(x.AssertedType)
		}
		fr.regs[x] = Tuple{res, BoolC(match)}
		fr.ip++
		return
	}
	if !match {
		ex.raise(st, Iface{T: runtimeErrorType, V: StrC("interface conversion")}, "interface conversion")
		return
	}
	fr.regs[x] = res
	fr.ip++
}
