package main

import (
	"encoding/json"
	"fmt"
	"os"
	"os/exec"
	"path/filepath"
	"sort"
	"strconv"
	"strings"
	"sync"
	"time"

	"golang.org/x/tools/go/ssa"
)

// PropConfig: which harness files serve a property.
type PropConfig struct {
	ID        string
	Sets      []HarnessSet
	Prefix    string // harness function prefix, e.g. "VH_C01_"
	Extra     []string
	Unwind    int
	Bounds    []string
	Assumes   []string
	Explain   string
	Thorough  func(name string) bool // harnesses only run in thorough tier (nil: all in both)
	QuickSkip func(name string) bool
	Redirect  map[string]string // real function (ssa name) -> harness function modelling it
	TimeoutMs int
	Solver    string // primary back end ("" = z3 4.8.12)
	StrBytes  int    // >0: strings are bounded bit-vectors of this many bytes (0: SMT-LIB strings)
}

type HarnessResult struct {
	Name         string
	Obligations  []*Obligation
	Paths        map[string]int // status -> count
	Msgs         map[string]int // unsupported / unwind messages
	Failures     []*Failure
	Reached      int
	Queries      int
	SolverSecs   float64
	WallSecs     float64
	Funcs        []string
	Stubs        []string
	States       int
	Inconclusive []string
	BoundHits    map[string]int
}

type Failure struct {
	Harness string
	Label   string
	Model   []InputVal
	Replay  string // path of replay file
	Result  string // replay result
	Known   string // matched known finding
}

type KnownFinding struct {
	Property string `json:"property"`
	Harness  string `json:"harness"` // harness name or prefix ending in *
	Label    string `json:"label"`   // assertion label or prefix ending in *
	What     string `json:"what"`
	Status   string `json:"status"` // "known" or "fixed"
	Commit   string `json:"commit,omitempty"`
}

func loadKnown() []KnownFinding {
	data, err := os.ReadFile(filepath.Join(verifDir, "known_findings.json"))
	if err != nil {
		return nil
	}
	var k []KnownFinding
	if err := json.Unmarshal(data, &k); err != nil {
		fmt.Fprintf(os.Stderr, "warning: known_findings.json: %v\n", err)
	}
	return k
}

func globMatch(pat, s string) bool {
	if strings.HasSuffix(pat, "*") {
		return strings.HasPrefix(s, pat[:len(pat)-1])
	}
	return pat == s
}

func runHarness(l *Loaded, pc *PropConfig, fn *ssa.Function, solver *Solver, tier string) *HarnessResult {
	t0 := time.Now()
	solver.Reset()
	q0, s0 := solver.Queries, solver.Time
	ex := NewExec(l.Prog, solver)
	ex.harness = fn.Name()
	if len(pc.Redirect) > 0 {
		ex.redirect = map[string]*ssa.Function{}
		for real, model := range pc.Redirect {
			if m := fn.Pkg.Func(model); m != nil {
				ex.redirect[real] = m
			} else {
				for _, p := range l.Pkgs {
					if m := p.Func(model); m != nil {
						ex.redirect[real] = m
					}
				}
			}
		}
	}
	if pc.Unwind > 0 {
		ex.unwind = pc.Unwind
	}
	if tier == "thorough" {
		ex.fallbackBudget = 90 * time.Second
	}
	hr := &HarnessResult{Name: fn.Name(), Paths: map[string]int{}, Msgs: map[string]int{}}
	func() {
		defer func() {
			if r := recover(); r != nil {
				if e, ok := r.(engineErr); ok {
					hr.Paths["unsupported"]++
					hr.Msgs[e.msg]++
					return
				}
				hr.Paths["engine-crash"]++
				hr.Msgs[fmt.Sprint(r)]++
			}
		}()
		ex.Run(fn, nil)
	}()
	for _, st := range ex.finished {
		status := st.status
		if status == "killed:string-bound" {
			hr.Paths["outside-bound"]++
			continue
		}
		if strings.HasPrefix(status, "killed:assume") || status == "killed:infeasible" {
			hr.Paths["pruned"]++
			continue
		}
		hr.Paths[status]++
		switch status {
		case "done":
			for _, r := range st.reached {
				if r == "end" {
					hr.Reached++
					break
				}
			}
		case "panic":
			// uncaught panic in the harness: a failed obligation if feasible
			var want []*Term
			for _, in := range st.inputs {
				want = append(want, in.T)
			}
			p := st.curPanic()
			msg := "uncaught panic"
			if p != nil {
				msg += ": " + p.Runtime + " " + fmtValue(p.Val)
			}
			ob := &Obligation{Harness: fn.Name(), Label: msg, PathID: st.id}
			r, model := solver.CheckModel(st.pc, want)
			switch r {
			case "sat":
				ob.Verdict = "failed"
				for _, in := range st.inputs {
					ob.Model = append(ob.Model, InputVal{Name: in.Name, Kind: in.Kind, Val: model[in.T.S]})
				}
			case "unsat":
				ob.Verdict = "proved"
			default:
				ob.Verdict = "unknown"
			}
			ex.obligations = append(ex.obligations, ob)
		case "unsupported", "unwind":
			hr.Msgs[st.msg]++
		default:
			if strings.HasPrefix(status, "killed:") {
				hr.Msgs[status]++
			}
		}
	}
	hr.Obligations = ex.obligations
	hr.BoundHits = ex.boundHits
	hr.States = len(ex.finished)
	seen := map[string]bool{}
	for _, ob := range ex.obligations {
		if ob.Verdict == "failed" && !seen[ob.Label] {
			seen[ob.Label] = true
			hr.Failures = append(hr.Failures, &Failure{Harness: fn.Name(), Label: ob.Label, Model: ob.Model})
		}
		if ob.Verdict == "unknown" {
			hr.Inconclusive = append(hr.Inconclusive, "solver-unknown: "+ob.Label)
		}
	}
	for m, n := range hr.Msgs {
		hr.Inconclusive = append(hr.Inconclusive, fmt.Sprintf("%s (x%d)", m, n))
	}
	if hr.Reached == 0 && len(hr.Failures) == 0 {
		hr.Inconclusive = append(hr.Inconclusive, "vacuous: no path reached vhReach(\"end\")")
	}
	for f := range ex.fnSeen {
		hr.Funcs = append(hr.Funcs, f)
	}
	for f := range ex.stubSeen {
		hr.Stubs = append(hr.Stubs, f)
	}
	sort.Strings(hr.Funcs)
	sort.Strings(hr.Stubs)
	hr.Queries = solver.Queries - q0
	hr.SolverSecs = (solver.Time - s0).Seconds()
	hr.WallSecs = time.Since(t0).Seconds()
	return hr
}

// ---------- model -> tape ----------

func modelToTape(m []InputVal) []InputVal {
	out := make([]InputVal, len(m))
	for i, iv := range m {
		v := strings.TrimSpace(iv.Val)
		switch iv.Kind {
		case "bigint":
			// SMT Int model value: 123 or (- 123)
			v = strings.ReplaceAll(strings.ReplaceAll(strings.ReplaceAll(v, "(", ""), ")", ""), " ", "")
		case "bool":
			if v == "true" {
				v = "1"
			} else {
				v = "0"
			}
		case "str":
			if bstrL > 0 {
				v = decodeBVString(v)
			} else {
				v = decodeSMTString(v)
			}
		default:
			switch {
			case strings.HasPrefix(v, "#x"):
				v = "0x" + v[2:]
			case strings.HasPrefix(v, "#b"):
				u, _ := strconv.ParseUint(v[2:], 2, 64)
				v = fmt.Sprintf("0x%x", u)
			case strings.HasPrefix(v, "(_ bv"):
				f := strings.Fields(v[5:])
				v = f[0]
			case v == "":
				v = "0"
			}
		}
		out[i] = InputVal{Name: iv.Name, Kind: iv.Kind, Val: v}
	}
	return out
}

// decodeBVString: model value of a bounded bit-vector string (#x<content><len>) -> Go string.
func decodeBVString(v string) string {
	if !strings.HasPrefix(v, "#x") || len(v) != 2+2*bstrL+2 {
		return ""
	}
	h := v[2:]
	n, _ := strconv.ParseUint(h[2*bstrL:], 16, 8)
	var b []byte
	for i := 0; i < int(n) && i < bstrL; i++ {
		c, _ := strconv.ParseUint(h[2*i:2*i+2], 16, 8)
		b = append(b, byte(c))
	}
	return string(b)
}

func decodeSMTString(s string) string {
	if len(s) >= 2 && s[0] == '"' && s[len(s)-1] == '"' {
		s = s[1 : len(s)-1]
	}
	s = strings.ReplaceAll(s, `""`, `"`)
	var b []byte
	for i := 0; i < len(s); i++ {
		if s[i] == '\\' && i+2 < len(s) && s[i+1] == 'u' && s[i+2] == '{' {
			j := strings.IndexByte(s[i:], '}')
			if j > 0 {
				u, err := strconv.ParseUint(s[i+3:i+j], 16, 32)
				if err == nil {
					b = append(b, byte(u))
					i += j
					continue
				}
			}
		}
		if s[i] == '\\' && i+3 < len(s) && s[i+1] == 'x' {
			u, err := strconv.ParseUint(s[i+2:i+4], 16, 8)
			if err == nil {
				b = append(b, byte(u))
				i += 3
				continue
			}
		}
		b = append(b, s[i])
	}
	return string(b)
}

// ---------- replay ----------

type replayFile struct {
	Property string     `json:"property"`
	Harness  string     `json:"harness"`
	Label    string     `json:"label"`
	PkgRel   string     `json:"pkg"`
	Inputs   []InputVal `json:"inputs"`
}

func writeReplay(prop string, pc *PropConfig, f *Failure, pkgRel string, n int) string {
	dir := filepath.Join(verifDir, "replays", prop)
	os.MkdirAll(dir, 0o755)
	path := filepath.Join(dir, fmt.Sprintf("%s_%d.json", f.Harness, n))
	rf := replayFile{Property: prop, Harness: f.Harness, Label: f.Label, PkgRel: pkgRel, Inputs: modelToTape(f.Model)}
	data, _ := json.MarshalIndent(rf, "", " ")
	os.WriteFile(path, data, 0o644)
	return path
}

// runReplays executes harnesses natively on their models through one `go test -overlay` per package.
// It returns path -> result.
func runReplays(pc *PropConfig, pkgRel string, paths []string) (map[string]string, string) {
	res := map[string]string{}
	ov, _, err := buildOverlay(pc.Sets, true)
	if err != nil {
		return res, err.Error()
	}
	if len(pc.Redirect) > 0 {
		initSrc, err := addHookOverlays(ov, pc.Redirect, pkgPath(pkgRel))
		if err != nil {
			return res, "hook overlay: " + err.Error()
		}
		tf := filepath.Join(repoDir, pkgRel, "zz_vh_replay_test.go")
		src := string(ov[tf])
		// imports must precede other declarations: splice the init source right after the package clause's import block
		if i := strings.Index(initSrc, "\nfunc init()"); i >= 0 {
			imports, body := initSrc[:i], initSrc[i:]
			if j := strings.Index(src, "\nimport"); j >= 0 {
				src = src[:j] + "\n" + imports + src[j:]
			}
			src += body
		}
		ov[tf] = []byte(src)
	}
	tmp, err := os.MkdirTemp("", "gosym-replay-")
	if err != nil {
		return res, err.Error()
	}
	defer os.RemoveAll(tmp)
	repl := map[string]string{}
	i := 0
	for virt, content := range ov {
		real := filepath.Join(tmp, fmt.Sprintf("f%d_%s", i, filepath.Base(virt)))
		i++
		os.WriteFile(real, content, 0o644)
		repl[virt] = real
	}
	oj, _ := json.Marshal(map[string]interface{}{"Replace": repl})
	ovPath := filepath.Join(tmp, "overlay.json")
	os.WriteFile(ovPath, oj, 0o644)
	pkgDir := filepath.Join(repoDir, pkgRel)
	cmd := exec.Command("go", "test", "-vet=off", "-count=1", "-run", "^TestVHReplay$", "-v", "-timeout", "900s", "-overlay", ovPath, ".")
	cmd.Dir = pkgDir
	cmd.Env = append(os.Environ(), "GOFLAGS=-mod=mod", "GOPROXY=off", "GOSUMDB=off", "GOTOOLCHAIN=local", "VH_REPLAY="+strings.Join(paths, ","))
	out, _ := cmd.CombinedOutput()
	txt := string(out)
	for _, line := range strings.Split(txt, "\n") {
		if strings.HasPrefix(line, "REPLAY-RESULT[") {
			j := strings.Index(line, "]: ")
			if j > 0 {
				res[line[len("REPLAY-RESULT["):j]] = line[j+3:]
			}
		}
	}
	return res, txt
}

func goCacheDir() string {
	if d := os.Getenv("GOCACHE"); d != "" {
		return d
	}
	out, err := exec.Command("go", "env", "GOCACHE").Output()
	if err == nil {
		return strings.TrimSpace(string(out))
	}
	return filepath.Join(os.TempDir(), "gosym-gocache")
}

// ---------- check ----------

type Evidence struct {
	PropertyID  string                 `json:"property_id"`
	Tier        string                 `json:"tier"`
	Seed        int                    `json:"seed"`
	Level       string                 `json:"level"`
	Coverage    map[string]interface{} `json:"coverage"`
	Assumptions []string               `json:"assumptions"`
	WallS       float64                `json:"wall_s"`
	Violations  int                    `json:"violations"`
}

func checkProperty(id, tier string, only string) int {
	t0 := time.Now()
	pc, ok := propConfigs()[id]
	if !ok {
		fmt.Printf("property %s has no check (see MANIFEST.json not_applicable)\n", id)
		return 2
	}
	seed, _ := strconv.Atoi(os.Getenv("VERIF_SEED"))
	bstrL = pc.StrBytes
	l, err := loadProgram(pc.Sets, pc.Extra)
	if err != nil {
		fmt.Printf("INCONCLUSIVE property=%s: cannot load /repo with the harness overlay: %v\n", id, err)
		writeEvidence(id, tier, seed, pc, nil, 0, time.Since(t0).Seconds(), []string{"load failure: " + err.Error()}, 0)
		return 0
	}
	loadSecs := time.Since(t0).Seconds()
	// collect harness functions
	type job struct {
		fn     *ssa.Function
		pkgRel string
	}
	var jobs []job
	for _, hs := range pc.Sets {
		pp := pkgPath(hs.PkgRel)
		sp := l.Pkgs[pp]
		if sp == nil {
			continue
		}
		for _, n := range l.Harness[pp] {
			if !strings.HasPrefix(n, pc.Prefix) {
				continue
			}
			if only != "" && !strings.Contains(n, only) {
				continue
			}
			if tier == "quick" && pc.Thorough != nil && pc.Thorough(n) {
				continue
			}
			if fn := sp.Func(n); fn != nil {
				jobs = append(jobs, job{fn, hs.PkgRel})
			}
		}
	}
	timeout := 10000
	if tier == "thorough" {
		timeout = 120000
	}
	if pc.TimeoutMs > 0 && tier == "quick" {
		timeout = pc.TimeoutMs
	}
	workers := 16
	if len(jobs) < workers {
		workers = len(jobs)
	}
	results := make([]*HarnessResult, len(jobs))
	var wg sync.WaitGroup
	ch := make(chan int)
	for w := 0; w < workers; w++ {
		wg.Add(1)
		go func() {
			defer wg.Done()
			kind := pc.Solver
			if e := os.Getenv("GOSYM_SOLVER"); e != "" {
				kind = e
			}
			if kind == "" {
				kind = "z3"
			}
			solver, err := NewSolver(kind, timeout)
			if err != nil {
				fmt.Fprintf(os.Stderr, "cannot start z3: %v\n", err)
				return
			}
			defer solver.Close()
			for i := range ch {
				if verbose {
					fmt.Fprintf(os.Stderr, "[start] %s\n", jobs[i].fn.Name())
				}
				results[i] = runHarness(l, pc, jobs[i].fn, solver, tier)
				if verbose {
					fmt.Fprintf(os.Stderr, "[done ] %s %.1fs paths=%v\n", jobs[i].fn.Name(), results[i].WallSecs, results[i].Paths)
				}
			}
		}()
	}
	for i := range jobs {
		ch <- i
	}
	close(ch)
	wg.Wait()

	known := loadKnown()
	if only == "" {
		os.RemoveAll(filepath.Join(verifDir, "replays", id))
	}
	violations := 0
	var inconclusive []string
	nrep := 0
	byPkg := map[string][]string{}
	for i, hr := range results {
		if hr == nil {
			inconclusive = append(inconclusive, jobs[i].fn.Name()+": worker failed")
			continue
		}
		for _, m := range hr.Inconclusive {
			inconclusive = append(inconclusive, hr.Name+": "+m)
		}
		for _, f := range hr.Failures {
			nrep++
			f.Replay = writeReplay(id, pc, f, jobs[i].pkgRel, nrep)
			byPkg[jobs[i].pkgRel] = append(byPkg[jobs[i].pkgRel], f.Replay)
		}
	}
	replayRes := map[string]string{}
	for rel, paths := range byPkg {
		r, out := runReplays(pc, rel, paths)
		for k, v := range r {
			replayRes[k] = v
		}
		if len(r) < len(paths) || os.Getenv("GOSYM_DEBUG") != "" {
			fmt.Println(out)
		}
	}
	for _, hr := range results {
		if hr == nil {
			continue
		}
		for _, f := range hr.Failures {
			res, ok := replayRes[f.Replay]
			if !ok {
				res = "no-result"
			}
			f.Result = res
			if strings.HasPrefix(res, "reproduced") {
				matched := false
				for _, k := range known {
					if k.Property == id && k.Status == "known" && globMatch(k.Harness, f.Harness) && globMatch(k.Label, f.Label) {
						fmt.Printf("KNOWN-FINDING: property=%s %s [%s / %s]\n", id, k.What, f.Harness, f.Label)
						f.Known = k.What
						matched = true
						break
					}
				}
				if !matched {
					violations++
					fmt.Printf("VIOLATION property=%s replay=%s\n", id, f.Replay)
					fmt.Printf("  harness=%s assertion=%q replay-result=%q\n", f.Harness, f.Label, res)
				}
			} else {
				inconclusive = append(inconclusive, fmt.Sprintf("%s: counterexample for %q did not reproduce natively (%s): encoding or stub defect", f.Harness, f.Label, res))
				fmt.Printf("UNCONFIRMED property=%s harness=%s assertion=%q replay-result=%s replay=%s\n", id, f.Harness, f.Label, res, f.Replay)
			}
		}
	}
	wall := time.Since(t0).Seconds()
	writeEvidence(id, tier, seed, pc, results, loadSecs, wall, inconclusive, violations)
	// summary
	nob, ndis := 0, 0
	for _, hr := range results {
		if hr == nil {
			continue
		}
		for _, ob := range hr.Obligations {
			nob++
			if ob.Verdict == "proved" {
				ndis++
			}
		}
	}
	fmt.Printf("property=%s tier=%s harnesses=%d obligations=%d discharged=%d inconclusive=%d violations=%d wall=%.1fs\n",
		id, tier, len(jobs), nob, ndis, len(inconclusive), violations, wall)
	for _, m := range inconclusive {
		fmt.Printf("  INCONCLUSIVE: %s\n", m)
	}
	if violations > 0 {
		return 1
	}
	return 0
}

func writeEvidence(id, tier string, seed int, pc *PropConfig, results []*HarnessResult, loadSecs, wall float64, inconclusive []string, violations int) {
	cov := map[string]interface{}{}
	nob, ndis, nq, nstates := 0, 0, 0, 0
	ssecs := 0.0
	funcs := map[string]bool{}
	stubs := map[string]bool{}
	shapes := map[string]bool{}
	var samples []interface{}
	var perHarness []interface{}
	reached := 0
	var known []string
	unconfirmed := 0
	for _, hr := range results {
		if hr == nil {
			continue
		}
		nq += hr.Queries
		ssecs += hr.SolverSecs
		nstates += hr.States
		reached += hr.Reached
		hob, hdis := 0, 0
		for _, ob := range hr.Obligations {
			nob++
			hob++
			if ob.Verdict == "proved" {
				ndis++
				hdis++
			}
			shapes[ob.Harness+"/"+ob.Label] = true
			if len(samples) < 12 && (ob.Size > 3) {
				samples = append(samples, map[string]interface{}{"harness": ob.Harness, "assertion": ob.Label, "verdict": ob.Verdict, "smt_nodes": ob.Size, "path": ob.PathID})
			}
		}
		for _, f := range hr.Funcs {
			if !strings.Contains(f, ".VH_") && !strings.Contains(f, ".vh") {
				funcs[f] = true
			}
		}
		for _, s := range hr.Stubs {
			stubs[s] = true
		}
		for _, f := range hr.Failures {
			if f.Known != "" {
				known = append(known, f.Harness+": "+f.Known)
			} else if !strings.HasPrefix(f.Result, "reproduced") {
				unconfirmed++
			}
		}
		perHarness = append(perHarness, map[string]interface{}{"harness": hr.Name, "paths": hr.Paths, "obligations": hob, "discharged": hdis,
			"end_reached_paths": hr.Reached, "queries": hr.Queries, "solver_s": round3(hr.SolverSecs), "wall_s": round3(hr.WallSecs)})
	}
	if len(samples) == 0 {
		samples = append(samples, "no obligations were generated in this run")
	}
	var fl, sl []string
	for f := range funcs {
		fl = append(fl, f)
	}
	for s := range stubs {
		sl = append(sl, s)
	}
	sort.Strings(fl)
	sort.Strings(sl)
	cov["explanation"] = "bounded SMT discharge (z3 4.8.12, bit-vector/FP/string theories) of assertions reached by symbolic execution of go/ssa built from /repo's current working tree; harness = in-package Go function with nondeterministic inputs; " + pc.Explain
	cov["obligations"] = nob
	cov["discharged"] = ndis
	cov["evaluations"] = nq
	cov["distinct_nontrivial"] = len(shapes)
	cov["rule"] = "evaluations = solver queries (feasibility + proof); distinct_nontrivial = distinct (harness, assertion label) pairs whose proof reached the solver or folded; samples = real obligations with SMT node counts"
	cov["samples"] = samples
	cov["functions_encoded"] = fl
	cov["stubs_used"] = sl
	cov["bounds"] = pc.Bounds
	cov["queries"] = nq
	cov["solver_time_s"] = round3(ssecs)
	cov["load_time_s"] = round3(loadSecs)
	cov["symbolic_states"] = nstates
	cov["vacuity_witnesses"] = reached
	bh := map[string]int{}
	for _, hr := range results {
		if hr != nil {
			for k, v := range hr.BoundHits {
				bh[k] += v
			}
		}
	}
	cov["paths_cut_by_representation_bounds"] = bh
	cov["inconclusive"] = inconclusive
	cov["unconfirmed_counterexamples"] = unconfirmed
	cov["known_findings_seen"] = known
	cov["harnesses"] = perHarness
	cov["checker_cmd"] = "z3 -in (4.8.12)"
	cov["trusted_base"] = []string{"go/ssa (x/tools v0.29.0) as the meaning of the source", "z3 4.8.12", "gosym encoder (validated by native replay of every counterexample and by the primitive self-test)", "stubs listed in stubs_used"}
	ev := Evidence{PropertyID: id, Tier: tier, Seed: seed, Level: "other", Coverage: cov, Assumptions: append([]string(nil), pc.Assumes...), WallS: round3(wall), Violations: violations}
	if ev.Assumptions == nil {
		ev.Assumptions = []string{}
	}
	data, _ := json.MarshalIndent(ev, "", " ")
	os.MkdirAll(filepath.Join(verifDir, "evidence"), 0o755)
	os.WriteFile(filepath.Join(verifDir, "evidence", id+".json"), data, 0o644)
}

func round3(f float64) float64 { return float64(int64(f*1000+0.5)) / 1000 }
