package main

// SMT terms with light constant folding.  Terms are immutable strings plus a sort;
// bit-vector and boolean constants carry their value so the executor can fold branches
// without a solver call.

import (
	"fmt"
	"math"
	"math/big"
	"strings"
)

type SortKind int

const (
	SBool SortKind = iota
	SBV
	SFP
	SString
	SInt
)

type Sort struct {
	K SortKind
	W int // BV width, or FP total width (32/64)
}

var (
	BoolSort = Sort{SBool, 0}
	StrSort  = Sort{SString, 0}
	IntSort  = Sort{SInt, 0}
	F32Sort  = Sort{SFP, 32}
	F64Sort  = Sort{SFP, 64}
)

func BVSort(w int) Sort { return Sort{SBV, w} }

func (s Sort) String() string {
	switch s.K {
	case SBool:
		return "Bool"
	case SBV:
		return fmt.Sprintf("(_ BitVec %d)", s.W)
	case SFP:
		if s.W == 32 {
			return "(_ FloatingPoint 8 24)"
		}
		return "(_ FloatingPoint 11 53)"
	case SString:
		if bstrL > 0 {
			return fmt.Sprintf("(_ BitVec %d)", 8*bstrL+8)
		}
		return "String"
	case SInt:
		return "Int"
	}
	return "?"
}

type Term struct {
	Sort  Sort
	S     string
	Const bool
	U     uint64 // value of a BV constant (W<=64) or 0/1 for Bool, raw bits for FP constants
	Str   string // value of a String constant
	size  int    // rough node count
	widened bool // term is an exact float32->float64 widening of its argument
	syms     []string // cached: solver symbols occurring in S
	symsDone bool
	Op       string  // structure of terms built by app (for local rewrites)
	Args     []*Term
}

func (t *Term) String() string { return t.S }

var (
	True  = &Term{Sort: BoolSort, S: "true", Const: true, U: 1, size: 1}
	False = &Term{Sort: BoolSort, S: "false", Const: true, U: 0, size: 1}
)

func BoolC(b bool) *Term {
	if b {
		return True
	}
	return False
}

func mask(w int) uint64 {
	if w >= 64 {
		return ^uint64(0)
	}
	return (uint64(1) << uint(w)) - 1
}

func BVC(w int, v uint64) *Term {
	v &= mask(w)
	var s string
	if w%4 == 0 {
		s = fmt.Sprintf("#x%0*x", w/4, v)
	} else {
		s = fmt.Sprintf("(_ bv%d %d)", v, w)
	}
	return &Term{Sort: BVSort(w), S: s, Const: true, U: v, size: 1}
}

func smtStringLit(s string) string {
	var b strings.Builder
	b.WriteByte('"')
	for i := 0; i < len(s); i++ {
		c := s[i]
		switch {
		case c == '"':
			b.WriteString(`""`)
		case c >= 0x20 && c < 0x7f && c != '\\':
			b.WriteByte(c)
		default:
			fmt.Fprintf(&b, `\u{%x}`, c)
		}
	}
	b.WriteByte('"')
	return b.String()
}

func StrC(s string) *Term {
	if bstrL > 0 {
		lit := "|string-constant-longer-than-the-bound|"
		if len(s) <= bstrL {
			lit = bsLit(s)
		}
		return &Term{Sort: StrSort, S: lit, Const: true, Str: s, size: 1}
	}
	return &Term{Sort: StrSort, S: smtStringLit(s), Const: true, Str: s, size: 1}
}

func IntC(v int64) *Term {
	s := fmt.Sprintf("%d", v)
	if v < 0 {
		s = fmt.Sprintf("(- %d)", -v)
	}
	return &Term{Sort: IntSort, S: s, Const: true, U: uint64(v), size: 1}
}

func F64C(f float64) *Term {
	bits := math.Float64bits(f)
	return &Term{Sort: F64Sort, S: fmt.Sprintf("((_ to_fp 11 53) #x%016x)", bits), Const: true, U: bits, size: 1}
}
func F32C(f float32) *Term {
	bits := math.Float32bits(f)
	return &Term{Sort: F32Sort, S: fmt.Sprintf("((_ to_fp 8 24) #x%08x)", bits), Const: true, U: uint64(bits), size: 1}
}

func app(sort Sort, op string, args ...*Term) *Term {
	var b strings.Builder
	b.WriteByte('(')
	b.WriteString(op)
	sz := 1
	for _, a := range args {
		b.WriteByte(' ')
		b.WriteString(a.S)
		sz += a.size
	}
	b.WriteByte(')')
	return &Term{Sort: sort, S: b.String(), size: sz, Op: op, Args: args}
}

func Sym(sort Sort, name string) *Term { return &Term{Sort: sort, S: name, size: 1} }

// ---------- booleans ----------

func Not(a *Term) *Term {
	if a.Const {
		return BoolC(a.U == 0)
	}
	if strings.HasPrefix(a.S, "(not ") {
		inner := a.S[5 : len(a.S)-1]
		return &Term{Sort: BoolSort, S: inner, size: a.size - 1}
	}
	return app(BoolSort, "not", a)
}

func And(ts ...*Term) *Term {
	var out []*Term
	for _, t := range ts {
		if t.Const {
			if t.U == 0 {
				return False
			}
			continue
		}
		out = append(out, t)
	}
	switch len(out) {
	case 0:
		return True
	case 1:
		return out[0]
	}
	return app(BoolSort, "and", out...)
}

func Or(ts ...*Term) *Term {
	var out []*Term
	for _, t := range ts {
		if t.Const {
			if t.U == 1 {
				return True
			}
			continue
		}
		out = append(out, t)
	}
	switch len(out) {
	case 0:
		return False
	case 1:
		return out[0]
	}
	return app(BoolSort, "or", out...)
}

func Implies(a, b *Term) *Term { return Or(Not(a), b) }

func Ite(c, a, b *Term) *Term {
	if c.Const {
		if c.U == 1 {
			return a
		}
		return b
	}
	if a.S == b.S {
		return a
	}
	if a.Sort.K == SBool {
		if a.Const && b.Const {
			if a.U == 1 {
				return c
			}
			return Not(c)
		}
	}
	return app(a.Sort, "ite", c, a, b)
}

func Eq(a, b *Term) *Term {
	if a.Sort != b.Sort {
		panic(fmt.Sprintf("Eq sort mismatch %s %s: %s / %s", a.Sort, b.Sort, a.S, b.S))
	}
	if a.Const && b.Const {
		switch a.Sort.K {
		case SString:
			return BoolC(a.Str == b.Str)
		case SFP:
			// structural equality on constants: NaNs are all equal in SMT
			an, bn := fpIsNaNBits(a), fpIsNaNBits(b)
			if an || bn {
				return BoolC(an && bn)
			}
			return BoolC(a.U == b.U)
		default:
			return BoolC(a.U == b.U)
		}
	}
	if a.S == b.S {
		return True
	}
	if a.Sort.K == SBool {
		if a.Const {
			if a.U == 1 {
				return b
			}
			return Not(b)
		}
		if b.Const {
			if b.U == 1 {
				return a
			}
			return Not(a)
		}
	}
	return app(BoolSort, "=", a, b)
}

func fpIsNaNBits(t *Term) bool {
	if t.Sort.W == 64 {
		f := math.Float64frombits(t.U)
		return f != f
	}
	f := math.Float32frombits(uint32(t.U))
	return f != f
}

// ---------- bit-vectors ----------

func sext(w int, v uint64) int64 {
	if w >= 64 {
		return int64(v)
	}
	sh := uint(64 - w)
	return int64(v<<sh) >> sh
}

func bvBin(op string, a, b *Term) *Term {
	if a.Sort != b.Sort || a.Sort.K != SBV {
		panic(fmt.Sprintf("bv %s sort mismatch %s %s: %s / %s", op, a.Sort, b.Sort, a.S, b.S))
	}
	w := a.Sort.W
	if a.Const && b.Const {
		x, y := a.U, b.U
		sx, sy := sext(w, x), sext(w, y)
		switch op {
		case "bvadd":
			return BVC(w, x+y)
		case "bvsub":
			return BVC(w, x-y)
		case "bvmul":
			return BVC(w, x*y)
		case "bvand":
			return BVC(w, x&y)
		case "bvor":
			return BVC(w, x|y)
		case "bvxor":
			return BVC(w, x^y)
		case "bvshl":
			if y >= uint64(w) {
				return BVC(w, 0)
			}
			return BVC(w, x<<y)
		case "bvlshr":
			if y >= uint64(w) {
				return BVC(w, 0)
			}
			return BVC(w, x>>y)
		case "bvashr":
			if y >= uint64(w) {
				y = uint64(w - 1)
			}
			return BVC(w, uint64(sx>>y))
		case "bvudiv":
			if y != 0 {
				return BVC(w, x/y)
			}
		case "bvurem":
			if y != 0 {
				return BVC(w, x%y)
			}
		case "bvsdiv":
			if y != 0 {
				if sy == -1 {
					return BVC(w, uint64(-sx))
				}
				return BVC(w, uint64(sx/sy))
			}
		case "bvsrem":
			if y != 0 {
				if sy == -1 {
					return BVC(w, 0)
				}
				return BVC(w, uint64(sx%sy))
			}
		}
	}
	if b.Const && !a.Const && !noDivRewrite {
		if r := divByConstPow2(op, a, b); r != nil {
			return r
		}
	}
	// cheap identities
	switch op {
	case "bvadd", "bvor", "bvxor":
		if a.Const && a.U == 0 {
			return b
		}
		if b.Const && b.U == 0 {
			return a
		}
	case "bvsub", "bvshl", "bvlshr", "bvashr":
		if b.Const && b.U == 0 {
			return a
		}
	case "bvand":
		if a.Const && a.U == 0 || b.Const && b.U == 0 {
			return BVC(w, 0)
		}
	}
	return app(a.Sort, op, a, b)
}

func bvCmp(op string, a, b *Term) *Term {
	if a.Sort != b.Sort || a.Sort.K != SBV {
		panic(fmt.Sprintf("bv %s sort mismatch %s %s: %s / %s", op, a.Sort, b.Sort, a.S, b.S))
	}
	w := a.Sort.W
	if a.Const && b.Const {
		x, y := a.U, b.U
		sx, sy := sext(w, x), sext(w, y)
		switch op {
		case "bvult":
			return BoolC(x < y)
		case "bvule":
			return BoolC(x <= y)
		case "bvugt":
			return BoolC(x > y)
		case "bvuge":
			return BoolC(x >= y)
		case "bvslt":
			return BoolC(sx < sy)
		case "bvsle":
			return BoolC(sx <= sy)
		case "bvsgt":
			return BoolC(sx > sy)
		case "bvsge":
			return BoolC(sx >= sy)
		}
	}
	return app(BoolSort, op, a, b)
}

func BVNot(a *Term) *Term {
	if a.Const {
		return BVC(a.Sort.W, ^a.U)
	}
	return app(a.Sort, "bvnot", a)
}
func BVNeg(a *Term) *Term {
	if a.Const {
		return BVC(a.Sort.W, -a.U)
	}
	return app(a.Sort, "bvneg", a)
}

func Extract(hi, lo int, a *Term) *Term {
	w := hi - lo + 1
	if a.Const {
		return BVC(w, a.U>>uint(lo))
	}
	if lo == 0 && w == a.Sort.W {
		return a
	}
	if lo == 0 && !noNarrowRewrite {
		if r := narrow(w, a); r != nil {
			return r
		}
	}
	t := app(BVSort(w), fmt.Sprintf("(_ extract %d %d)", hi, lo), a)
	return t
}

// noNarrowRewrite disables the narrowing rewrites (the self-test proves them with the solver).
var noNarrowRewrite = false

// extOf: if a is sign_extend/zero_extend of a term of width <= w (or a constant that is the
// extension of its low w bits), return that term resized to w; signed selects the extension kind.
func extOf(w int, a *Term, signed bool) *Term {
	if a.Const {
		lowv := a.U & mask(w)
		var back uint64
		if signed {
			back = uint64(sext(w, lowv)) & mask(a.Sort.W)
		} else {
			back = lowv
		}
		if back == a.U {
			return BVC(w, lowv)
		}
		return nil
	}
	want := "(_ zero_extend "
	if signed {
		want = "(_ sign_extend "
	}
	if strings.HasPrefix(a.Op, want) && len(a.Args) == 1 && a.Args[0].Sort.W <= w {
		in := a.Args[0]
		if in.Sort.W == w {
			return in
		}
		if signed {
			return SignExt(w, in)
		}
		return ZeroExt(w, in)
	}
	return nil
}

// narrow(w, a) = the low w bits of a, for shapes where they are computable at width w:
//   low_w(ext(x))                      = x resized
//   low_w(sdiv/srem(sext x, sext y))   = sdiv/srem_w(x, y)     (also for y = 0 and MinInt / -1)
//   low_w(udiv/urem(zext x, zext y))   = udiv/urem_w(x, y)
//   low_w(add/sub/mul/and/or/xor(a,b)) = op_w(low_w a, low_w b) when both operands narrow
// Each rule is proved by the solver at 8/16 bits in the engine self-test (T00).
func narrow(w int, a *Term) *Term {
	if a.Sort.K != SBV || a.Sort.W <= w || len(a.Args) == 0 {
		return nil
	}
	if (strings.HasPrefix(a.Op, "(_ sign_extend ") || strings.HasPrefix(a.Op, "(_ zero_extend ")) && len(a.Args) == 1 {
		in := a.Args[0]
		switch {
		case in.Sort.W == w:
			return in
		case in.Sort.W > w:
			return Extract(w-1, 0, in)
		case strings.HasPrefix(a.Op, "(_ sign_extend "):
			return SignExt(w, in)
		default:
			return ZeroExt(w, in)
		}
	}
	if len(a.Args) != 2 {
		return nil
	}
	switch a.Op {
	case "bvsdiv", "bvsrem":
		x, y := extOf(w, a.Args[0], true), extOf(w, a.Args[1], true)
		if x != nil && y != nil {
			return bvBin(a.Op, x, y)
		}
	case "bvudiv", "bvurem":
		x, y := extOf(w, a.Args[0], false), extOf(w, a.Args[1], false)
		if x != nil && y != nil {
			return bvBin(a.Op, x, y)
		}
	case "bvadd", "bvsub", "bvmul", "bvand", "bvor", "bvxor":
		x, y := lowBits(w, a.Args[0]), lowBits(w, a.Args[1])
		if x != nil && y != nil {
			return bvBin(a.Op, x, y)
		}
	}
	return nil
}

// lowBits: the low w bits of a when they are available without an extract node.
func lowBits(w int, a *Term) *Term {
	if a.Const {
		return BVC(w, a.U)
	}
	if (strings.HasPrefix(a.Op, "(_ sign_extend ") || strings.HasPrefix(a.Op, "(_ zero_extend ")) && len(a.Args) == 1 && a.Args[0].Sort.W >= w {
		return Extract(w-1, 0, a.Args[0])
	}
	return narrow(w, a)
}

func ZeroExt(to int, a *Term) *Term {
	if to == a.Sort.W {
		return a
	}
	if a.Const {
		return BVC(to, a.U)
	}
	return app(BVSort(to), fmt.Sprintf("(_ zero_extend %d)", to-a.Sort.W), a)
}

func SignExt(to int, a *Term) *Term {
	if to == a.Sort.W {
		return a
	}
	if a.Const {
		return BVC(to, uint64(sext(a.Sort.W, a.U)))
	}
	return app(BVSort(to), fmt.Sprintf("(_ sign_extend %d)", to-a.Sort.W), a)
}

func Concat(hi, lo *Term) *Term {
	w := hi.Sort.W + lo.Sort.W
	if hi.Const && lo.Const && w <= 64 {
		return BVC(w, hi.U<<uint(lo.Sort.W)|lo.U)
	}
	return app(BVSort(w), "concat", hi, lo)
}

// Resize converts an integer term between widths the way Go's conversion does.
func Resize(a *Term, to int, signed bool) *Term {
	w := a.Sort.W
	switch {
	case to == w:
		return a
	case to < w:
		return Extract(to-1, 0, a)
	case signed:
		return SignExt(to, a)
	default:
		return ZeroExt(to, a)
	}
}

// ---------- floating point ----------

const rne = "RNE"

func fpBin(op string, a, b *Term) *Term {
	if a.Sort != b.Sort {
		panic("fp sort mismatch")
	}
	if a.Const && b.Const {
		if a.Sort.W == 64 {
			x, y := math.Float64frombits(a.U), math.Float64frombits(b.U)
			switch op {
			case "fp.add":
				return F64C(x + y)
			case "fp.sub":
				return F64C(x - y)
			case "fp.mul":
				return F64C(x * y)
			case "fp.div":
				return F64C(x / y)
			}
		} else {
			x, y := math.Float32frombits(uint32(a.U)), math.Float32frombits(uint32(b.U))
			switch op {
			case "fp.add":
				return F32C(x + y)
			case "fp.sub":
				return F32C(x - y)
			case "fp.mul":
				return F32C(x * y)
			case "fp.div":
				return F32C(x / y)
			}
		}
	}
	return &Term{Sort: a.Sort, S: fmt.Sprintf("(%s %s %s %s)", op, rne, a.S, b.S), size: a.size + b.size + 1, Op: op, Args: []*Term{a, b}}
}

// noDoubleRounding disables the rewrite float32(float64(x) op float64(y)) -> x op y.
var noDoubleRounding = false

// f32Of: the float32 term whose exact widening a (float64) is, or nil.
func f32Of(a *Term) *Term {
	if a.Const {
		f := math.Float64frombits(a.U)
		if g := float32(f); float64(g) == f || f != f {
			return F32C(g)
		}
		return nil
	}
	if a.widened && len(a.Args) == 1 {
		return a.Args[0]
	}
	return nil
}

func fpCmp(op string, a, b *Term) *Term {
	if a.Const && b.Const {
		var x, y float64
		if a.Sort.W == 64 {
			x, y = math.Float64frombits(a.U), math.Float64frombits(b.U)
		} else {
			x, y = float64(math.Float32frombits(uint32(a.U))), float64(math.Float32frombits(uint32(b.U)))
		}
		switch op {
		case "fp.eq":
			return BoolC(x == y)
		case "fp.lt":
			return BoolC(x < y)
		case "fp.leq":
			return BoolC(x <= y)
		case "fp.gt":
			return BoolC(x > y)
		case "fp.geq":
			return BoolC(x >= y)
		}
	}
	return app(BoolSort, op, a, b)
}

func FPNeg(a *Term) *Term {
	if a.Const {
		if a.Sort.W == 64 {
			return F64C(-math.Float64frombits(a.U))
		}
		return F32C(-math.Float32frombits(uint32(a.U)))
	}
	return app(a.Sort, "fp.neg", a)
}

func FPIsNaN(a *Term) *Term {
	if a.Const {
		return BoolC(fpIsNaNBits(a))
	}
	return app(BoolSort, "fp.isNaN", a)
}

// FPFromBits reinterprets a BV32/BV64 as a float.
func FPFromBits(a *Term) *Term {
	if a.Const {
		if a.Sort.W == 64 {
			return F64C(math.Float64frombits(a.U))
		}
		return F32C(math.Float32frombits(uint32(a.U)))
	}
	// to_fp(fp.to_ieee_bv(x)) = x (SMT-LIB has a single NaN, so this holds for NaN too)
	const pre = "(fp.to_ieee_bv "
	if strings.HasPrefix(a.S, pre) {
		inner := a.S[len(pre) : len(a.S)-1]
		if a.Sort.W == 64 {
			return &Term{Sort: F64Sort, S: inner, size: a.size - 1}
		}
		return &Term{Sort: F32Sort, S: inner, size: a.size - 1}
	}
	if a.Sort.W == 64 {
		return app(F64Sort, "(_ to_fp 11 53)", a)
	}
	return app(F32Sort, "(_ to_fp 8 24)", a)
}

// FPToBits is z3's total fp.to_ieee_bv (NaN maps to one fixed pattern).
func FPToBits(a *Term) *Term {
	if a.Const {
		return BVC(a.Sort.W, a.U)
	}
	// peel (to_fp bits) back to bits: exact for non-NaN, and the NaN payload the code
	// stored is what a typed view would read back, so this is the faithful choice.
	if strings.HasPrefix(a.S, "((_ to_fp 11 53) ") && !strings.HasPrefix(a.S, "((_ to_fp 11 53) R") && a.Sort.W == 64 {
		inner := a.S[len("((_ to_fp 11 53) ") : len(a.S)-1]
		return &Term{Sort: BVSort(64), S: inner, size: a.size - 1}
	}
	if strings.HasPrefix(a.S, "((_ to_fp 8 24) ") && !strings.HasPrefix(a.S, "((_ to_fp 8 24) R") && a.Sort.W == 32 {
		inner := a.S[len("((_ to_fp 8 24) ") : len(a.S)-1]
		return &Term{Sort: BVSort(32), S: inner, size: a.size - 1}
	}
	return app(BVSort(a.Sort.W), "fp.to_ieee_bv", a)
}

func FPConvert(a *Term, to int) *Term {
	if a.Sort.W == to {
		return a
	}
	if a.Const {
		if to == 32 {
			return F32C(float32(math.Float64frombits(a.U)))
		}
		return F64C(float64(math.Float32frombits(uint32(a.U))))
	}
	if to == 32 {
		// float32(float64(f32)) == f32 exactly (widening is exact; SMT-LIB has a single NaN)
		pre := "((_ to_fp 11 53) " + rne + " "
		if strings.HasPrefix(a.S, pre) && a.widened {
			inner := a.S[len(pre) : len(a.S)-1]
			return &Term{Sort: F32Sort, S: inner, size: a.size - 1}
		}
		// double rounding is innocuous for one + - * / on widened operands (53 >= 2*24+2, Figueroa 1995):
		// float32(float64(x) op float64(y)) == x op y.  Trusted theorem; `gosym lemmas` proves the
		// half->single precision analogue with the solver.
		if !noDoubleRounding && len(a.Args) == 2 && (a.Op == "fp.add" || a.Op == "fp.sub" || a.Op == "fp.mul" || a.Op == "fp.div") {
			if x, y := f32Of(a.Args[0]), f32Of(a.Args[1]); x != nil && y != nil {
				return fpBin(a.Op, x, y)
			}
		}
		return &Term{Sort: F32Sort, S: fmt.Sprintf("((_ to_fp 8 24) %s %s)", rne, a.S), size: a.size + 1}
	}
	return &Term{Sort: F64Sort, S: fmt.Sprintf("((_ to_fp 11 53) %s %s)", rne, a.S), size: a.size + 1, widened: true, Args: []*Term{a}}
}

func IntToFP(a *Term, signed bool, to int) *Term {
	if a.Const {
		var f float64
		if signed {
			f = float64(sext(a.Sort.W, a.U))
		} else {
			f = float64(a.U)
		}
		if to == 32 {
			if signed {
				return F32C(float32(sext(a.Sort.W, a.U)))
			}
			return F32C(float32(a.U))
		}
		return F64C(f)
	}
	fn := "to_fp"
	if !signed {
		fn = "to_fp_unsigned"
	}
	if to == 32 {
		return &Term{Sort: F32Sort, S: fmt.Sprintf("((_ %s 8 24) %s %s)", fn, rne, a.S), size: a.size + 1}
	}
	return &Term{Sort: F64Sort, S: fmt.Sprintf("((_ %s 11 53) %s %s)", fn, rne, a.S), size: a.size + 1}
}

// FPToInt: Go truncates toward zero; out-of-range is implementation-defined (callers guard).
func FPToInt(a *Term, signed bool, w int) *Term {
	if a.Const {
		var f float64
		if a.Sort.W == 64 {
			f = math.Float64frombits(a.U)
		} else {
			f = float64(math.Float32frombits(uint32(a.U)))
		}
		if f == f && math.Abs(f) < 9e18 {
			if signed {
				return BVC(w, uint64(int64(f)))
			} else if f >= 0 {
				return BVC(w, uint64(f))
			}
		}
	}
	fn := "fp.to_sbv"
	if !signed {
		fn = "fp.to_ubv"
	}
	return &Term{Sort: BVSort(w), S: fmt.Sprintf("((_ %s %d) RTZ %s)", fn, w, a.S), size: a.size + 1}
}

// ---------- strings / ints ----------

// bstrL > 0 selects the bounded bit-vector representation of strings: a string of at most bstrL
// bytes is one bit-vector of 8*bstrL+8 bits: bytes big-endian in the high bits, zero padded, length
// in the low 8 bits.  On canonical values (padding zero, length <= bstrL) equality is bit equality
// and Go's lexicographic order is unsigned bit-vector order.  bstrL == 0: SMT-LIB strings.
var bstrL = 0

func bsContentSort() Sort { return BVSort(8 * bstrL) }

func bsContent(a *Term) *Term {
	return app(bsContentSort(), fmt.Sprintf("(_ extract %d 8)", 8*bstrL+7), a)
}
func bsLen8(a *Term) *Term { return app(BVSort(8), "(_ extract 7 0)", a) }

func bsLit(s string) string {
	var b strings.Builder
	b.WriteString("#x")
	for i := 0; i < bstrL; i++ {
		if i < len(s) {
			fmt.Fprintf(&b, "%02x", s[i])
		} else {
			b.WriteString("00")
		}
	}
	fmt.Fprintf(&b, "%02x", len(s))
	return b.String()
}

// bsShift converts a 64-bit byte count into a content-width bit count (count*8).
func bsShift(n *Term) *Term {
	cw := 8 * bstrL
	var t *Term
	switch {
	case cw == 64:
		t = n
	case cw > 64:
		t = app(BVSort(cw), fmt.Sprintf("(_ zero_extend %d)", cw-64), n)
	default:
		t = app(BVSort(cw), fmt.Sprintf("(_ extract %d 0)", cw-1), n)
	}
	three := &Term{Sort: BVSort(cw), S: fmt.Sprintf("(_ bv3 %d)", cw), size: 1}
	// saturate: counts >= bstrL bytes shift everything out
	big := app(BoolSort, "bvuge", n, BVC(64, uint64(bstrL)))
	full := &Term{Sort: BVSort(cw), S: fmt.Sprintf("(_ bv%d %d)", cw, cw), size: 1}
	return Ite(big, full, app(BVSort(cw), "bvshl", t, three))
}

func bsOnes() *Term {
	cw := 8 * bstrL
	return &Term{Sort: BVSort(cw), S: "#x" + strings.Repeat("ff", bstrL), size: 1}
}

// bsKeepMask(n): the n high bytes set, the rest clear (n: 64-bit byte count).
func bsKeepMask(n *Term) *Term {
	return app(bsContentSort(), "bvnot", app(bsContentSort(), "bvlshr", bsOnes(), bsShift(n)))
}

func bsMake(content, len8 *Term) *Term { return app(StrSort, "concat", content, len8) }

// bsCanonical: the representation invariant of a symbolic bounded string.
func bsCanonical(a *Term) *Term {
	l := StrLen(a)
	zero := &Term{Sort: bsContentSort(), S: fmt.Sprintf("(_ bv0 %d)", 8*bstrL), size: 1}
	return And(bvCmp("bvule", l, BVC(64, uint64(bstrL))),
		Eq(app(bsContentSort(), "bvand", bsContent(a), app(bsContentSort(), "bvlshr", bsOnes(), bsShift(l))), zero))
}

// strFits: the condition under which a ++ b stays within the representation bound.
func strFits(a, b *Term) *Term {
	if bstrL == 0 {
		return True
	}
	if a.Const && b.Const {
		return BoolC(len(a.Str)+len(b.Str) <= bstrL)
	}
	return bvCmp("bvule", bvBin("bvadd", StrLen(a), StrLen(b)), BVC(64, uint64(bstrL)))
}

func StrLen(a *Term) *Term {
	if a.Const {
		return BVC(64, uint64(len(a.Str)))
	}
	if bstrL > 0 {
		return app(BVSort(64), "(_ zero_extend 56)", bsLen8(a))
	}
	return app(BVSort(64), "(_ int2bv 64)", app(IntSort, "str.len", a))
}

func BV2Int(a *Term) *Term {
	if a.Const {
		return IntC(int64(a.U))
	}
	return app(IntSort, "bv2int", a)
}

func StrConcat(a, b *Term) *Term {
	if a.Const && b.Const {
		return StrC(a.Str + b.Str)
	}
	if a.Const && a.Str == "" {
		return b
	}
	if b.Const && b.Str == "" {
		return a
	}
	if bstrL > 0 {
		content := app(bsContentSort(), "bvor", bsContent(a), app(bsContentSort(), "bvlshr", bsContent(b), bsShift(StrLen(a))))
		return bsMake(content, app(BVSort(8), "bvadd", bsLen8(a), bsLen8(b)))
	}
	return app(StrSort, "str.++", a, b)
}

// StrAt returns byte i of s as BV8 (caller has checked bounds).
func StrAt(s, i *Term) *Term {
	if s.Const && i.Const && i.U < uint64(len(s.Str)) {
		return BVC(8, uint64(s.Str[i.U]))
	}
	if bstrL > 0 {
		cw := 8 * bstrL
		return app(BVSort(8), fmt.Sprintf("(_ extract %d %d)", cw-1, cw-8), app(bsContentSort(), "bvshl", bsContent(s), bsShift(i)))
	}
	return app(BVSort(8), "(_ int2bv 8)", app(IntSort, "str.to_code", app(StrSort, "str.at", s, BV2Int(i))))
}

func StrSub(s, lo, hi *Term) *Term {
	if s.Const && lo.Const && hi.Const && lo.U <= hi.U && hi.U <= uint64(len(s.Str)) {
		return StrC(s.Str[lo.U:hi.U])
	}
	if bstrL > 0 {
		n := bvBin("bvsub", hi, lo)
		shifted := app(bsContentSort(), "bvshl", bsContent(s), bsShift(lo))
		return bsMake(app(bsContentSort(), "bvand", shifted, bsKeepMask(n)), Extract(7, 0, n))
	}
	return app(StrSort, "str.substr", s, BV2Int(lo), BV2Int(bvBin("bvsub", hi, lo)))
}

func StrLt(a, b *Term) *Term {
	if a.Const && b.Const {
		return BoolC(a.Str < b.Str)
	}
	if bstrL > 0 {
		return app(BoolSort, "bvult", a, b)
	}
	return app(BoolSort, "str.<", a, b)
}
func StrLe(a, b *Term) *Term {
	if a.Const && b.Const {
		return BoolC(a.Str <= b.Str)
	}
	if bstrL > 0 {
		return app(BoolSort, "bvule", a, b)
	}
	return app(BoolSort, "str.<=", a, b)
}
func StrPrefixOf(p, s *Term) *Term {
	if p.Const && s.Const {
		return BoolC(strings.HasPrefix(s.Str, p.Str))
	}
	if bstrL > 0 {
		return And(bvCmp("bvule", StrLen(p), StrLen(s)),
			Eq(app(bsContentSort(), "bvand", bsContent(s), bsKeepMask(StrLen(p))), bsContent(p)))
	}
	return app(BoolSort, "str.prefixof", p, s)
}

// StrFromByte builds the one-byte string holding b (BV8).
func StrFromByte(b *Term) *Term {
	if b.Const {
		return StrC(string([]byte{byte(b.U)}))
	}
	if bstrL > 0 {
		pad := &Term{Sort: BVSort(8*bstrL - 8), S: fmt.Sprintf("(_ bv0 %d)", 8*bstrL-8), size: 1}
		return bsMake(app(bsContentSort(), "concat", b, pad), BVC(8, 1))
	}
	return app(StrSort, "str.from_code", BV2Int(b))
}

var _ = big.NewInt

// noDivRewrite disables divByConstPow2 (used by the self-test that validates the rewrite).
var noDivRewrite = false

// divByConstPow2 rewrites division/remainder by a constant ±2^k into shifts and masks.  z3 4.8.12
// bit-blasts a full divider for bvsdiv even when the divisor is constant (3–7 s per 64-bit query);
// the rewritten form is decided in milliseconds.  The identities are re-proved by `gosym selftest`
// (against the solvers' own bvsdiv/bvsrem) for every width and k.
func divByConstPow2(op string, x, c *Term) *Term {
	w := x.Sort.W
	switch op {
	case "bvudiv", "bvurem":
		v := c.U
		if v == 0 || v&(v-1) != 0 {
			return nil
		}
		k := uint64(0)
		for (uint64(1) << k) != v {
			k++
		}
		if op == "bvudiv" {
			return bvBin("bvlshr", x, BVC(w, k))
		}
		return bvBin("bvand", x, BVC(w, v-1))
	case "bvsdiv", "bvsrem":
		sv := sext(w, c.U)
		neg := sv < 0
		mag := uint64(sv)
		if neg {
			mag = uint64(-sv) & mask(w)
		}
		if mag == 0 || mag&(mag-1) != 0 {
			return nil
		}
		k := uint64(0)
		for (uint64(1) << k) != mag {
			k++
		}
		zero := BVC(w, 0)
		xneg := bvCmp("bvslt", x, zero)
		if op == "bvsdiv" {
			if int(k) == w-1 { // divisor is MinInt
				return Ite(Eq(x, c), BVC(w, 1), zero)
			}
			q := Ite(xneg, BVNeg(bvBin("bvlshr", BVNeg(x), BVC(w, k))), bvBin("bvlshr", x, BVC(w, k)))
			if neg {
				return BVNeg(q)
			}
			return q
		}
		// remainder: sign follows the dividend, magnitude |x| mod |c|
		if int(k) == w-1 {
			return Ite(Eq(x, c), zero, x)
		}
		m := BVC(w, mag-1)
		return Ite(xneg, BVNeg(bvBin("bvand", BVNeg(x), m)), bvBin("bvand", x, m))
	}
	return nil
}
