package main

import (
	"math"
	"regexp"
	"strconv"
	"fmt"
	"go/types"

	"golang.org/x/tools/go/ssa"
)

type deferred struct {
	fn   Value // *Closure or bound method closure
	args []Value
	// builtin/static callee
	callee *ssa.Function
	instr  *ssa.Defer
}

const (
	modeNormal = iota
	modeUnwind // running deferred calls because of a panic
	modeRecovered
)

type Frame struct {
	fn      *ssa.Function
	blk     *ssa.BasicBlock
	prev    *ssa.BasicBlock
	ip      int
	regs    map[ssa.Value]Value
	defers  []*deferred
	retTo   ssa.Value // register in the caller receiving the result (nil: discard)
	visits  map[*ssa.BasicBlock]int
	mode    int
	isDefer bool // frame was started as a deferred call
	shared  bool
	synthetic bool // straight-line slice of an init function; falling off the end returns
	// callback invoked (engine-internal) when the frame returns instead of assigning retTo
	onRet func(st *State, v Value)
}

func (f *Frame) clone() *Frame {
	g := *f
	g.regs = make(map[ssa.Value]Value, len(f.regs)+8)
	for k, v := range f.regs {
		g.regs[k] = v
	}
	g.visits = make(map[*ssa.BasicBlock]int, len(f.visits))
	for k, v := range f.visits {
		g.visits[k] = v
	}
	g.defers = append([]*deferred(nil), f.defers...)
	g.shared = false
	return &g
}

type PanicInfo struct {
	Val       Value
	Recovered bool
	Runtime   string // non-empty for run-time panics raised by the engine (nil deref, index, divide)
}

type Input struct {
	Name string
	Kind string // u8,u16,u32,u64,i8..,bool,f32,f64,str
	T    *Term
}

type State struct {
	id         int
	frames     []*Frame
	heap       map[int]Value
	heapShared bool
	pc         []*Term
	inputs     []Input
	panics     []*PanicInfo
	globals    map[*ssa.Global]int
	status     string // "", "done", "panic", "killed:<why>", "unsupported:<what>", "unwind"
	msg        string
	result     Value
	steps      int
	reached    []string // labels passed through vReach
	counters   map[string]int
	unwind     int // per-state override of loop bound (0 = exec default)
}

func (st *State) fork(ex *Exec) *State {
	n := *st
	ex.nextState++
	n.id = ex.nextState
	n.frames = make([]*Frame, len(st.frames))
	for i, f := range st.frames {
		f.shared = true
		n.frames[i] = f
	}
	st.heapShared = true
	n.heapShared = true
	n.pc = st.pc[:len(st.pc):len(st.pc)]
	n.inputs = st.inputs[:len(st.inputs):len(st.inputs)]
	n.panics = append([]*PanicInfo(nil), st.panics...)
	for i, p := range n.panics {
		cp := *p
		n.panics[i] = &cp
	}
	n.reached = st.reached[:len(st.reached):len(st.reached)]
	n.globals = st.globals // global→object ids never change once allocated; allocation copies
	if st.counters != nil {
		n.counters = map[string]int{}
		for k, v := range st.counters {
			n.counters[k] = v
		}
	}
	return &n
}

func (st *State) top() *Frame {
	i := len(st.frames) - 1
	f := st.frames[i]
	if f.shared {
		f = f.clone()
		st.frames[i] = f
	}
	return f
}

func (st *State) frameAt(i int) *Frame {
	f := st.frames[i]
	if f.shared {
		f = f.clone()
		st.frames[i] = f
	}
	return f
}

func (st *State) heapW() map[int]Value {
	if st.heapShared {
		h := make(map[int]Value, len(st.heap)+8)
		for k, v := range st.heap {
			h[k] = v
		}
		st.heap = h
		st.heapShared = false
	}
	return st.heap
}

func (st *State) addPC(t *Term) {
	if t.Const && t.U == 1 {
		return
	}
	st.pc = append(st.pc, t)
	// redundant but helpful fact: fp.eq(x, c) with c finite and non-zero fixes the bit pattern of x,
	// which lets the solver's simplifier substitute it instead of bit-blasting a symbolic operand
	if m := fpEqConstRe.FindStringSubmatch(t.S); m != nil {
		bits, err := strconv.ParseUint(m[3], 16, 64)
		w := 4 * len(m[3])
		if err == nil && (w == 64 || w == 32) {
			var finiteNonZero bool
			if w == 64 {
				f := math.Float64frombits(bits)
				finiteNonZero = f == f && f-f == 0 && f != 0
			} else {
				f := math.Float32frombits(uint32(bits))
				finiteNonZero = f == f && f-f == 0 && f != 0
			}
			if finiteNonZero {
				st.pc = append(st.pc, &Term{Sort: BoolSort, S: fmt.Sprintf("(= %s #x%s)", m[2], m[3]), size: 3})
			}
		}
	}
}

var fpEqConstRe = regexp.MustCompile(`^\(fp\.eq \(\(_ to_fp (\d+ \d+)\) (v\d+_\w+)\) \(\(_ to_fp \d+ \d+\) #x([0-9a-f]+)\)\)$`)

// ---------- heap access ----------

type engineErr struct{ msg string }

func unsupported(format string, a ...interface{}) {
	panic(engineErr{fmt.Sprintf(format, a...)})
}

func (ex *Exec) alloc(st *State, v Value) int {
	ex.nextObj++
	st.heapW()[ex.nextObj] = v
	return ex.nextObj
}

func getPath(v Value, path []PathElem) Value {
	for _, pe := range path {
		if pe.Field >= 0 {
			s, ok := v.(*StructV)
			if !ok {
				unsupported("field path into %T", v)
			}
			v = s.F[pe.Field]
		} else {
			a, ok := v.(*ArrV)
			if !ok {
				unsupported("index path into %T", v)
			}
			if pe.Idx < 0 || pe.Idx >= len(a.Elems) {
				unsupported("index path %d out of range %d", pe.Idx, len(a.Elems))
			}
			v = a.Elems[pe.Idx]
		}
	}
	return v
}

func setPath(v Value, path []PathElem, nv Value) Value {
	if len(path) == 0 {
		return nv
	}
	pe := path[0]
	if pe.Field >= 0 {
		s, ok := v.(*StructV)
		if !ok {
			unsupported("field store into %T", v)
		}
		ns := &StructV{F: append([]Value(nil), s.F...)}
		ns.F[pe.Field] = setPath(s.F[pe.Field], path[1:], nv)
		return ns
	}
	a, ok := v.(*ArrV)
	if !ok {
		unsupported("index store into %T", v)
	}
	if pe.Idx < 0 || pe.Idx >= len(a.Elems) {
		unsupported("index store %d out of range %d", pe.Idx, len(a.Elems))
	}
	na := &ArrV{Elems: append([]Value(nil), a.Elems...)}
	na.Elems[pe.Idx] = setPath(a.Elems[pe.Idx], path[1:], nv)
	return na
}

func (ex *Exec) loadRaw(st *State, p Ptr) Value {
	root, ok := st.heap[p.Obj]
	if !ok {
		unsupported("load from unknown object %d", p.Obj)
	}
	return getPath(root, p.Path)
}

func (ex *Exec) storeRaw(st *State, p Ptr, v Value) {
	h := st.heapW()
	root, ok := h[p.Obj]
	if !ok {
		unsupported("store to unknown object %d", p.Obj)
	}
	h[p.Obj] = setPath(root, p.Path, v)
}

// load reads through a pointer, honouring an unsafe view over a 64-bit slot.
func (ex *Exec) load(st *State, p Ptr) Value {
	if p.View == nil {
		return ex.loadRaw(st, p)
	}
	raw := ex.loadRaw(st, p)
	slot, ok := raw.(*Term)
	if !ok || slot.Sort != BVSort(64) {
		// view over a non-slot location: allow identical-layout reinterpretation of scalars
		return ex.reinterpret(raw, p.View)
	}
	return ex.viewLoad(st, p, slot)
}

func (ex *Exec) viewLoad(st *State, p Ptr, slot *Term) Value {
	k, ok := basicKind(p.View)
	if !ok {
		unsupported("unsafe view of type %s", p.View)
	}
	switch k {
	case types.Bool:
		return Not(Eq(Extract(7, 0, slot), BVC(8, 0)))
	case types.Float32:
		return FPFromBits(Extract(31, 0, slot))
	case types.Float64:
		return FPFromBits(slot)
	case types.Complex64:
		return Complex{FPFromBits(Extract(31, 0, slot)), FPFromBits(Extract(63, 32, slot))}
	case types.Complex128:
		nxt := ex.nextSlot(p)
		im, ok := ex.loadRaw(st, nxt).(*Term)
		if !ok {
			unsupported("complex128 view: second slot")
		}
		return Complex{FPFromBits(slot), FPFromBits(im)}
	}
	if w := intWidth(k); w > 0 {
		return Extract(w-1, 0, slot)
	}
	unsupported("unsafe view of kind %v", k)
	return nil
}

func (ex *Exec) nextSlot(p Ptr) Ptr {
	n := len(p.Path)
	if n == 0 || p.Path[n-1].Field >= 0 {
		unsupported("complex128 view over non-array slot")
	}
	np := Ptr{Obj: p.Obj, Path: append([]PathElem(nil), p.Path...)}
	np.Path[n-1].Idx++
	return np
}

func (ex *Exec) store(st *State, p Ptr, v Value) {
	if p.View == nil {
		ex.storeRaw(st, p, v)
		return
	}
	raw := ex.loadRaw(st, p)
	slot, ok := raw.(*Term)
	if !ok || slot.Sort != BVSort(64) {
		ex.storeRaw(st, Ptr{Obj: p.Obj, Path: p.Path}, ex.reinterpretBack(v, raw))
		return
	}
	k, ok := basicKind(p.View)
	if !ok {
		unsupported("unsafe view store of type %s", p.View)
	}
	base := Ptr{Obj: p.Obj, Path: p.Path}
	merge := func(w int, bits *Term) *Term {
		if w == 64 {
			return bits
		}
		return Concat(Extract(63, w, slot), bits)
	}
	switch k {
	case types.Bool:
		b := v.(*Term)
		ex.storeRaw(st, base, merge(8, Ite(b, BVC(8, 1), BVC(8, 0))))
	case types.Float32:
		ex.storeRaw(st, base, merge(32, FPToBits(v.(*Term))))
	case types.Float64:
		ex.storeRaw(st, base, FPToBits(v.(*Term)))
	case types.Complex64:
		c := v.(Complex)
		ex.storeRaw(st, base, Concat(FPToBits(c.Im), FPToBits(c.Re)))
	case types.Complex128:
		c := v.(Complex)
		ex.storeRaw(st, base, FPToBits(c.Re))
		ex.storeRaw(st, ex.nextSlot(base), FPToBits(c.Im))
	default:
		w := intWidth(k)
		if w == 0 {
			unsupported("unsafe view store of kind %v", k)
		}
		ex.storeRaw(st, base, merge(w, v.(*Term)))
	}
}

// reinterpret handles views between same-size scalar types (e.g. *uint64 over a float64).
func (ex *Exec) reinterpret(raw Value, view types.Type) Value {
	if sv, isStruct := raw.(*StructV); isStruct {
		// a struct of small integer fields read as one machine word (little endian: first field = low bits),
		// e.g. base.Signals{Sync, Debug, Async, _ uint8} read through *uint32
		var word *Term
		for _, f := range sv.F {
			ft, ok := f.(*Term)
			if !ok || ft.Sort.K != SBV {
				unsupported("unsafe view %s over a struct with non-integer fields", view)
			}
			if word == nil {
				word = ft
			} else {
				word = Concat(ft, word)
			}
		}
		if vs, ok := sortOf(view); ok && word != nil && vs.K == SBV && vs.W == word.Sort.W {
			return word
		}
		unsupported("unsafe view %s over struct of different size", view)
	}
	t, ok := raw.(*Term)
	if !ok {
		unsupported("unsafe view %s over %T", view, raw)
	}
	vs, ok := sortOf(view)
	if !ok {
		unsupported("unsafe view %s", view)
	}
	if t.Sort == vs {
		return t
	}
	switch {
	case t.Sort.K == SFP && vs.K == SBV && vs.W == t.Sort.W:
		return FPToBits(t)
	case t.Sort.K == SBV && vs.K == SFP && vs.W == t.Sort.W:
		return FPFromBits(t)
	case t.Sort.K == SBV && vs.K == SBV && vs.W < t.Sort.W:
		return Extract(vs.W-1, 0, t)
	}
	unsupported("unsafe view %s over sort %s", view, t.Sort)
	return nil
}

func (ex *Exec) reinterpretBack(v Value, old Value) Value {
	t, ok := v.(*Term)
	o, ok2 := old.(*Term)
	if !ok || !ok2 {
		unsupported("unsafe store %T over %T", v, old)
	}
	if t.Sort == o.Sort {
		return t
	}
	switch {
	case t.Sort.K == SBV && o.Sort.K == SFP && t.Sort.W == o.Sort.W:
		return FPFromBits(t)
	case t.Sort.K == SFP && o.Sort.K == SBV && t.Sort.W == o.Sort.W:
		return FPToBits(t)
	case t.Sort.K == SBV && o.Sort.K == SBV && t.Sort.W < o.Sort.W:
		return Concat(Extract(o.Sort.W-1, t.Sort.W, o), t)
	}
	unsupported("unsafe store sort %s over %s", t.Sort, o.Sort)
	return nil
}
