package main

// Demand-driven initialisation of package-level variables: the slice of the package's init
// function that computes one global is executed (in program order) the first time the global is used.

import (
	"sync"

	"golang.org/x/tools/go/ssa"
)

var initPlanCache sync.Map // *ssa.Global -> []ssa.Instruction

func initPlan(g *ssa.Global) []ssa.Instruction {
	if p, ok := initPlanCache.Load(g); ok {
		return p.([]ssa.Instruction)
	}
	var plan []ssa.Instruction
	if g.Pkg != nil {
		if initFn := g.Pkg.Func("init"); initFn != nil {
			plan = computeInitPlan(g, initFn)
		}
	}
	initPlanCache.Store(g, plan)
	return plan
}

func computeInitPlan(g *ssa.Global, initFn *ssa.Function) []ssa.Instruction {
	roots := map[ssa.Value]bool{g: true} // addresses/containers whose initialising writes we need
	included := map[ssa.Instruction]bool{}
	var includeVal func(v ssa.Value)
	include := func(in ssa.Instruction) {
		if included[in] {
			return
		}
		included[in] = true
		for _, op := range in.Operands(nil) {
			if *op != nil {
				includeVal(*op)
			}
		}
	}
	includeVal = func(v ssa.Value) {
		in, ok := v.(ssa.Instruction)
		if !ok {
			return // const, global, function, param
		}
		if in.Parent() != initFn {
			return
		}
		switch v.(type) {
		case *ssa.Alloc, *ssa.MakeMap, *ssa.MakeSlice, *ssa.FieldAddr, *ssa.IndexAddr, *ssa.Slice:
			roots[v] = true
		}
		include(in)
	}
	for changed := true; changed; {
		changed = false
		n0, r0 := len(included), len(roots)
		for _, b := range initFn.Blocks {
			for _, in := range b.Instrs {
				switch x := in.(type) {
				case *ssa.Store:
					if roots[x.Addr] {
						include(x)
					}
				case *ssa.MapUpdate:
					if roots[x.Map] {
						include(x)
					}
				case *ssa.FieldAddr:
					if roots[x.X] && !roots[x] {
						roots[x] = true
					}
				case *ssa.IndexAddr:
					if roots[x.X] && !roots[x] {
						roots[x] = true
					}
				}
			}
		}
		if len(included) != n0 || len(roots) != r0 {
			changed = true
		}
	}
	var plan []ssa.Instruction
	for _, b := range initFn.Blocks {
		for _, in := range b.Instrs {
			if included[in] {
				plan = append(plan, in)
			}
		}
	}
	return plan
}

// needGlobalInit finds an uninitialised global among the operands of in.
func (ex *Exec) needGlobalInit(st *State, in ssa.Instruction) *ssa.Global {
	var buf [8]*ssa.Value
	for _, op := range in.Operands(buf[:0]) {
		if g, ok := (*op).(*ssa.Global); ok {
			if _, done := st.globals[g]; !done {
				return g
			}
		}
	}
	return nil
}

// startGlobalInit allocates g (zero value) and, if it has initialisation code, pushes a synthetic frame.
func (ex *Exec) startGlobalInit(st *State, g *ssa.Global) {
	ex.globalPtr(st, g) // allocates with the zero value
	plan := initPlan(g)
	if len(plan) == 0 {
		return
	}
	for _, in := range plan {
		if _, isPhi := in.(*ssa.Phi); isPhi {
			unsupported("initialiser of global %s has control flow", g)
		}
	}
	fn := g.Pkg.Func("init")
	blk := &ssa.BasicBlock{Instrs: plan}
	fr := &Frame{fn: fn, blk: blk, regs: make(map[ssa.Value]Value, len(plan)), visits: map[*ssa.BasicBlock]int{}, synthetic: true}
	fr.onRet = func(st *State, v Value) {}
	st.frames = append(st.frames, fr)
}
