package main

// Fallback portfolio: when the primary solver answers unknown, the same query is given to
// z3 5.1.0 (z3-new) and cvc5 as one-shot processes.

import (
	"bytes"
	"fmt"
	"os/exec"
	"strings"
	"sync/atomic"
	"time"
)

var fallbackUsed int64
var fallbackSolved int64

func (s *Solver) fallback(asserts []*Term, want []*Term, budget time.Duration) (string, map[string]string, string) {
	atomic.AddInt64(&fallbackUsed, 1)
	var b strings.Builder
	for _, d := range s.decls {
		b.WriteString(d)
	}
	for _, a := range asserts {
		if a.Const && a.U == 1 {
			continue
		}
		fmt.Fprintf(&b, "(assert %s)\n", a.S)
	}
	b.WriteString("(check-sat)\n")
	for _, w := range want {
		fmt.Fprintf(&b, "(get-value (%s))\n", w.S)
	}
	for _, kind := range []string{"z3-new", "cvc5"} {
		var cmd *exec.Cmd
		txt := b.String()
		ms := int(budget / time.Millisecond)
		if kind == "cvc5" {
			if strings.Contains(txt, "fp.to_ieee_bv") {
				continue // z3 extension
			}
			txt = "(set-logic ALL)\n(set-option :produce-models true)\n" + txt
			cmd = exec.Command("cvc5", "--lang=smt2", "--strings-exp", "--fp-exp", fmt.Sprintf("--tlimit=%d", ms), "-")
		} else {
			txt = "(set-option :produce-models true)\n" + txt
			cmd = exec.Command("z3-new", "-in", fmt.Sprintf("-T:%d", ms/1000+1))
		}
		cmd.Stdin = strings.NewReader(txt)
		var out bytes.Buffer
		cmd.Stdout = &out
		cmd.Stderr = &out
		done := make(chan error, 1)
		cmd.Start()
		go func() { done <- cmd.Wait() }()
		select {
		case <-done:
		case <-time.After(budget + 5*time.Second):
			cmd.Process.Kill()
			<-done
			continue
		}
		lines := strings.Split(out.String(), "\n")
		if len(lines) == 0 {
			continue
		}
		v := strings.TrimSpace(lines[0])
		if strings.Contains(out.String(), "(error") && v != "unsat" {
			continue
		}
		if v == "unsat" {
			atomic.AddInt64(&fallbackSolved, 1)
			return "unsat", nil, kind
		}
		if v == "sat" {
			model := map[string]string{}
			rest := strings.Join(lines[1:], " ")
			for _, w := range want {
				key := "((" + w.S + " "
				if i := strings.Index(rest, key); i >= 0 {
					j := i + len(key)
					depth := 0
					k := j
					for ; k < len(rest); k++ {
						if rest[k] == '(' {
							depth++
						} else if rest[k] == ')' {
							if depth == 0 {
								break
							}
							depth--
						}
					}
					model[w.S] = strings.TrimSpace(rest[j:k])
				}
			}
			atomic.AddInt64(&fallbackSolved, 1)
			return "sat", model, kind
		}
	}
	return "unknown", nil, ""
}
