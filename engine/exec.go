package main

import (
	"fmt"
	"go/constant"
	"go/token"
	"go/types"
	"math"
	"os"
	"runtime/debug"
	"strings"
	"time"

	"golang.org/x/tools/go/ssa"
)

type Exec struct {
	prog      *ssa.Program
	solver    *Solver
	unwind    int
	maxSteps  int
	maxStates int
	nextObj   int
	nextSym   int
	nextState int
	work      []*State
	finished  []*State
	stubs     map[string]StubFn
	// results
	obligations []*Obligation
	fnSeen      map[string]bool // functions symbolically executed (evidence)
	stubSeen    map[string]bool
	harness     string
	redirect    map[string]*ssa.Function // real function -> harness-provided model
	globalInit  map[string]func(ex *Exec, st *State, g *ssa.Global) Value
	stats       struct{ forks, feas, paths int }
	fallbackBudget time.Duration
	constFloats map[string]*Term // exact integer constant -> its nearest float (abstract symbol + rounding contract)
	boundHits   map[string]int // representation bounds that cut feasible paths (reported in evidence)
}

type Obligation struct {
	Harness string
	Label   string
	Verdict string // "proved", "failed", "unknown"
	Model   []InputVal
	Size    int
	PathID  int
	By      string // solver that decided it when not the primary
}

type InputVal struct {
	Name string `json:"name"`
	Kind string `json:"kind"`
	Val  string `json:"val"`
}

func NewExec(prog *ssa.Program, solver *Solver) *Exec {
	ex := &Exec{prog: prog, solver: solver, fallbackBudget: 20 * time.Second, unwind: 12, maxSteps: 400000, maxStates: 20000,
		fnSeen: map[string]bool{}, stubSeen: map[string]bool{}, boundHits: map[string]int{}}
	ex.stubs = defaultStubs()
	return ex
}

func (ex *Exec) fresh(sort Sort, hint string) *Term {
	ex.nextSym++
	hint = sanitize(hint)
	name := fmt.Sprintf("v%d_%s", ex.nextSym, hint)
	ex.solver.Declare(name, sort)
	return Sym(sort, name)
}

func sanitize(s string) string {
	var b strings.Builder
	for _, r := range s {
		if r >= 'a' && r <= 'z' || r >= 'A' && r <= 'Z' || r >= '0' && r <= '9' || r == '_' {
			b.WriteRune(r)
		}
	}
	return b.String()
}

// ---------- feasibility / branching ----------

// noSlice disables query slicing and the verdict cache (GOSYM_NOSLICE=1: cross-check of the optimisation).
var noSlice = os.Getenv("GOSYM_NOSLICE") != ""

func (ex *Exec) feasible(st *State, extra ...*Term) string {
	ex.stats.feas++
	if noSlice {
		return ex.solver.Check(append(append([]*Term(nil), st.pc...), extra...))
	}
	return ex.solver.CheckCached(st.pc, extra...)
}

// branch splits st on cond.  It returns the state for cond and the state for !cond (either may be nil
// when infeasible).  st itself is reused for one of them.  "unknown" from the solver keeps the branch.
func (ex *Exec) branch(st *State, cond *Term) (*State, *State) {
	if cond.Const {
		if cond.U == 1 {
			return st, nil
		}
		return nil, st
	}
	rt := ex.feasible(st, cond)
	var rf string
	if rt == "unsat" {
		rf = "sat" // pc is satisfiable by construction
	} else {
		rf = ex.feasible(st, Not(cond))
	}
	switch {
	case rt != "unsat" && rf != "unsat":
		ex.stats.forks++
		other := st.fork(ex)
		st.addPC(cond)
		other.addPC(Not(cond))
		return st, other
	case rt != "unsat":
		st.addPC(cond)
		return st, nil
	default:
		st.addPC(Not(cond))
		return nil, st
	}
}

// guard continues st under ok; the failing side becomes a run-time panic on a forked state.
// Returns false when st itself could not continue (it has been turned into the panicking state).
func (ex *Exec) guard(st *State, ok *Term, what string) bool {
	if ok.Const && ok.U == 1 {
		return true
	}
	good, bad := ex.branch(st, ok)
	if bad != nil {
		ex.raise(bad, Iface{T: runtimeErrorType, V: StrC(what)}, what)
		if bad != st {
			ex.push(bad)
		}
	}
	return good == st
}

var runtimeErrorType = types.NewNamed(types.NewTypeName(token.NoPos, nil, "runtime.Error", nil), types.NewStruct(nil, nil), nil)

func (ex *Exec) push(st *State) { ex.work = append(ex.work, st) }

// ---------- panics ----------

func (ex *Exec) raise(st *State, val Value, runtime string) {
	if verbose {
		fmt.Fprintf(os.Stderr, "[panic] %s %s%s\n", runtime, fmtValue(val), ex.where(st))
	}
	st.panics = append(st.panics, &PanicInfo{Val: val, Runtime: runtime})
	fr := st.top()
	fr.mode = modeUnwind
	ex.continueUnwind(st)
}

// continueUnwind runs the next deferred call of the top frame, or pops frames until one has defers.
func (ex *Exec) continueUnwind(st *State) {
	for {
		if len(st.frames) == 0 {
			st.status = "panic"
			return
		}
		fr := st.top()
		fr.mode = modeUnwind
		if n := len(fr.defers); n > 0 {
			d := fr.defers[n-1]
			fr.defers = fr.defers[:n-1]
			ex.callDeferred(st, d)
			return
		}
		st.frames = st.frames[:len(st.frames)-1]
	}
}

func (ex *Exec) callDeferred(st *State, d *deferred) {
	ex.invoke(st, d.fn, d.callee, d.args, nil, true, d.instr)
}

func (st *State) curPanic() *PanicInfo {
	if len(st.panics) == 0 {
		return nil
	}
	return st.panics[len(st.panics)-1]
}

// ---------- run loop ----------

func (ex *Exec) Run(entry *ssa.Function, args []Value) []*State {
	st := &State{heap: map[int]Value{}, globals: map[*ssa.Global]int{}}
	ex.nextState++
	st.id = ex.nextState
	ex.pushFrame(st, entry, args, nil, nil, false)
	ex.push(st)
	for len(ex.work) > 0 {
		s := ex.work[len(ex.work)-1]
		ex.work = ex.work[:len(ex.work)-1]
		ex.runState(s)
		ex.finished = append(ex.finished, s)
		if len(ex.finished) > ex.maxStates {
			for _, w := range ex.work {
				w.status = "killed:state-budget"
				ex.finished = append(ex.finished, w)
			}
			ex.work = nil
		}
	}
	return ex.finished
}

func (ex *Exec) runState(st *State) {
	defer func() {
		if r := recover(); r != nil {
			if e, ok := r.(engineErr); ok {
				st.status = "unsupported"
				st.msg = e.msg + ex.where(st)
				return
			}
			st.status = "unsupported"
			st.msg = fmt.Sprintf("engine: %v", r) + ex.where(st)
			if os.Getenv("GOSYM_TRACE") != "" {
				debug.PrintStack()
			}
		}
	}()
	for st.status == "" {
		st.steps++
		if st.steps > ex.maxSteps {
			st.status = "killed:step-budget"
			return
		}
		ex.step(st)
	}
}

func (ex *Exec) where(st *State) string {
	if len(st.frames) == 0 {
		return ""
	}
	fr := st.frames[len(st.frames)-1]
	pos := ""
	if fr.blk != nil && fr.ip < len(fr.blk.Instrs) {
		in := fr.blk.Instrs[fr.ip]
		pos = fmt.Sprintf(" at %s: %s [%s]", fr.fn, in, ex.prog.Fset.Position(in.Pos()))
	}
	return pos
}

func (ex *Exec) pushFrame(st *State, fn *ssa.Function, args []Value, binds []Value, retTo ssa.Value, isDefer bool) *Frame {
	if len(fn.Blocks) == 0 {
		unsupported("call of function without body: %s", fn)
	}
	if len(st.frames) > 60 {
		unsupported("call depth > 60 in %s", fn)
	}
	ex.fnSeen[fn.String()] = true
	fr := &Frame{fn: fn, blk: fn.Blocks[0], regs: make(map[ssa.Value]Value, 32), retTo: retTo, isDefer: isDefer,
		visits: map[*ssa.BasicBlock]int{}}
	if len(args) != len(fn.Params) {
		unsupported("arity mismatch calling %s: %d args for %d params", fn, len(args), len(fn.Params))
	}
	for i, p := range fn.Params {
		fr.regs[p] = args[i]
	}
	if len(binds) != len(fn.FreeVars) {
		unsupported("free var mismatch calling %s", fn)
	}
	for i, fv := range fn.FreeVars {
		fr.regs[fv] = binds[i]
	}
	fr.visits[fr.blk] = 1
	st.frames = append(st.frames, fr)
	return fr
}

// get evaluates an SSA operand in frame fr.
func (ex *Exec) get(st *State, fr *Frame, v ssa.Value) Value {
	switch c := v.(type) {
	case *ssa.Const:
		return ex.constVal(c)
	case *ssa.Function:
		return &Closure{Fn: c}
	case *ssa.Global:
		return ex.globalPtr(st, c)
	case *ssa.Builtin:
		return &Closure{Stub: "builtin:" + c.Name()}
	}
	r, ok := fr.regs[v]
	if !ok {
		unsupported("no value for %s (%T) in %s", v.Name(), v, fr.fn)
	}
	return r
}

func (ex *Exec) constVal(c *ssa.Const) Value {
	t := c.Type()
	if c.Value == nil {
		if _, isTP := t.(*types.TypeParam); isTP {
			unsupported("const of type parameter type")
		}
		return zeroValue(t)
	}
	b, ok := t.Underlying().(*types.Basic)
	if !ok {
		unsupported("constant of type %s", t)
	}
	switch {
	case b.Info()&types.IsBoolean != 0:
		return BoolC(constant.BoolVal(c.Value))
	case b.Info()&types.IsString != 0:
		return StrC(constant.StringVal(c.Value))
	case b.Info()&types.IsInteger != 0:
		w := intWidth(b.Kind())
		v := constant.ToInt(c.Value)
		if u, ok := constant.Uint64Val(v); ok {
			return BVC(w, u)
		}
		i, _ := constant.Int64Val(v)
		return BVC(w, uint64(i))
	case b.Info()&types.IsFloat != 0:
		f, _ := constant.Float64Val(constant.ToFloat(c.Value))
		if b.Kind() == types.Float32 {
			f32, _ := constant.Float32Val(constant.ToFloat(c.Value))
			return F32C(f32)
		}
		return F64C(f)
	case b.Info()&types.IsComplex != 0:
		re, _ := constant.Float64Val(constant.Real(c.Value))
		im, _ := constant.Float64Val(constant.Imag(c.Value))
		if b.Kind() == types.Complex64 {
			return Complex{F32C(float32(re)), F32C(float32(im))}
		}
		return Complex{F64C(re), F64C(im)}
	}
	unsupported("constant %s of type %s", c, t)
	return nil
}

func (ex *Exec) globalPtr(st *State, g *ssa.Global) Value {
	if id, ok := st.globals[g]; ok {
		return Ptr{Obj: id}
	}
	elem := g.Type().(*types.Pointer).Elem()
	var v Value
	if init, ok := ex.globalInit[g.String()]; ok {
		v = init(ex, st, g)
	} else {
		v = ex.defaultGlobal(st, g, elem)
	}
	id := ex.alloc(st, v)
	ng := make(map[*ssa.Global]int, len(st.globals)+1)
	for k, x := range st.globals {
		ng[k] = x
	}
	ng[g] = id
	st.globals = ng
	return Ptr{Obj: id}
}

// defaultGlobal: package-level variables are not initialised (init is not run).  Reading one that the
// harness did not set is an error unless it is harness-owned (name starts with "vh").
func (ex *Exec) defaultGlobal(st *State, g *ssa.Global, elem types.Type) Value {
	return zeroValue(elem)
}

func (ex *Exec) setReg(st *State, v ssa.Value, val Value) {
	st.top().regs[v] = val
}

// advance moves to the next instruction.
func (ex *Exec) jump(st *State, fr *Frame, to *ssa.BasicBlock) {
	fr.prev = fr.blk
	fr.blk = to
	fr.ip = 0
}

// countVisit charges a symbolic branch into block `to` against the unwinding bound.
func (ex *Exec) countVisit(st *State, fr *Frame, to *ssa.BasicBlock) {
	fr.visits[to]++
	bound := ex.unwind
	if st.unwind > 0 {
		bound = st.unwind
	}
	if fr.visits[to] > bound+1 {
		st.status = "unwind"
		st.msg = fmt.Sprintf("loop bound %d exceeded in %s block %d", bound, fr.fn, to.Index)
	}
}

// ret returns v from the top frame.
func (ex *Exec) ret(st *State, v Value) {
	fr := st.frames[len(st.frames)-1]
	st.frames = st.frames[:len(st.frames)-1]
	if len(st.frames) == 0 {
		st.status = "done"
		st.result = v
		return
	}
	if fr.onRet != nil {
		fr.onRet(st, v)
		return
	}
	parent := st.top()
	if fr.isDefer {
		switch parent.mode {
		case modeUnwind:
			p := st.curPanic()
			if p != nil && p.Recovered {
				st.panics = st.panics[:len(st.panics)-1]
				parent.mode = modeRecovered
				ex.afterRecovered(st)
				return
			}
			ex.continueUnwind(st)
		case modeRecovered:
			ex.afterRecovered(st)
		default:
			// normal RunDefers: the RunDefers instruction is re-executed and pops the next one
		}
		return
	}
	if fr.retTo != nil {
		parent.regs[fr.retTo] = v
	}
	parent.ip++
}

// afterRecovered: run remaining defers, then leave through the Recover block.
func (ex *Exec) afterRecovered(st *State) {
	fr := st.top()
	if n := len(fr.defers); n > 0 {
		d := fr.defers[n-1]
		fr.defers = fr.defers[:n-1]
		ex.callDeferred(st, d)
		return
	}
	fr.mode = modeNormal
	if fr.fn.Recover != nil {
		ex.jump(st, fr, fr.fn.Recover)
		return
	}
	res := fr.fn.Signature.Results()
	var v Value
	switch res.Len() {
	case 0:
	case 1:
		v = zeroValue(res.At(0).Type())
	default:
		v = zeroValue(res)
	}
	ex.ret(st, v)
}

// ---------- step ----------

func (ex *Exec) step(st *State) {
	fr := st.top()
	if fr.ip >= len(fr.blk.Instrs) {
		if fr.synthetic {
			ex.ret(st, nil)
			return
		}
		unsupported("fell off block %d of %s", fr.blk.Index, fr.fn)
	}
	in := fr.blk.Instrs[fr.ip]
	if g := ex.needGlobalInit(st, in); g != nil {
		ex.startGlobalInit(st, g)
		return
	}
	switch x := in.(type) {
	case *ssa.DebugRef:
		fr.ip++
	case *ssa.Phi:
		// evaluate all phis of the block simultaneously
		idx := -1
		for i, p := range fr.blk.Preds {
			if p == fr.prev {
				idx = i
			}
		}
		if idx < 0 {
			unsupported("phi without matching predecessor")
		}
		var vals []Value
		n := 0
		for _, pin := range fr.blk.Instrs {
			ph, ok := pin.(*ssa.Phi)
			if !ok {
				break
			}
			vals = append(vals, ex.get(st, fr, ph.Edges[idx]))
			n++
		}
		for i := 0; i < n; i++ {
			fr.regs[fr.blk.Instrs[i].(*ssa.Phi)] = vals[i]
		}
		fr.ip = n
	case *ssa.Alloc:
		elem := x.Type().(*types.Pointer).Elem()
		id := ex.alloc(st, zeroValue(elem))
		fr.regs[x] = Ptr{Obj: id}
		fr.ip++
	case *ssa.Store:
		p, ok := ex.get(st, fr, x.Addr).(Ptr)
		if !ok {
			unsupported("store through %T", ex.get(st, fr, x.Addr))
		}
		if p.IsNil() {
			ex.raise(st, Iface{T: runtimeErrorType, V: StrC("nil dereference")}, "nil dereference")
			return
		}
		ex.store(st, p, ex.get(st, fr, x.Val))
		fr.ip++
	case *ssa.UnOp:
		ex.unop(st, fr, x)
	case *ssa.BinOp:
		a, b := ex.get(st, fr, x.X), ex.get(st, fr, x.Y)
		if v, ok := ex.binop(st, x.Op, a, b, x.X.Type(), x.Y.Type()); ok {
			st.top().regs[x] = v
			st.top().ip++
		}
	case *ssa.FieldAddr:
		p, ok := ex.get(st, fr, x.X).(Ptr)
		if !ok {
			unsupported("FieldAddr on %T", ex.get(st, fr, x.X))
		}
		if p.IsNil() {
			ex.raise(st, Iface{T: runtimeErrorType, V: StrC("nil dereference")}, "nil dereference")
			return
		}
		if p.View != nil {
			unsupported("FieldAddr through unsafe view")
		}
		np := Ptr{Obj: p.Obj, Path: append(append([]PathElem(nil), p.Path...), PathElem{Field: x.Field})}
		fr.regs[x] = np
		fr.ip++
	case *ssa.Field:
		s, ok := ex.get(st, fr, x.X).(*StructV)
		if !ok {
			unsupported("Field on %T", ex.get(st, fr, x.X))
		}
		fr.regs[x] = s.F[x.Field]
		fr.ip++
	case *ssa.IndexAddr:
		ex.indexAddr(st, fr, x)
	case *ssa.Index:
		ex.index(st, fr, x)
	case *ssa.Slice:
		ex.slice(st, fr, x)
	case *ssa.MakeSlice:
		ex.makeSlice(st, fr, x)
	case *ssa.MakeMap:
		id := ex.alloc(st, &MapObj{})
		st.top().regs[x] = MapV{Obj: id}
		st.top().ip++
	case *ssa.MapUpdate:
		ex.mapUpdate(st, fr, x)
	case *ssa.Lookup:
		ex.lookup(st, fr, x)
	case *ssa.Range:
		ex.rangeInit(st, fr, x)
	case *ssa.Next:
		ex.rangeNext(st, fr, x)
	case *ssa.MakeClosure:
		var binds []Value
		for _, b := range x.Bindings {
			binds = append(binds, ex.get(st, fr, b))
		}
		ex.nextObj++
		fr.regs[x] = &Closure{Fn: x.Fn.(*ssa.Function), Binds: binds, ID: ex.nextObj}
		fr.ip++
	case *ssa.MakeInterface:
		fr.regs[x] = Iface{T: x.X.Type(), V: ex.get(st, fr, x.X)}
		fr.ip++
	case *ssa.ChangeType:
		fr.regs[x] = ex.get(st, fr, x.X)
		fr.ip++
	case *ssa.ChangeInterface:
		fr.regs[x] = ex.get(st, fr, x.X)
		fr.ip++
	case *ssa.Convert:
		fr.regs[x] = ex.convert(st, ex.get(st, fr, x.X), x.X.Type(), x.Type())
		fr.ip++
	case *ssa.TypeAssert:
		ex.typeAssert(st, fr, x)
	case *ssa.Extract:
		t, ok := ex.get(st, fr, x.Tuple).(Tuple)
		if !ok {
			unsupported("Extract from %T", ex.get(st, fr, x.Tuple))
		}
		fr.regs[x] = t[x.Index]
		fr.ip++
	case *ssa.If:
		c, ok := ex.get(st, fr, x.Cond).(*Term)
		if !ok {
			unsupported("If on %T", ex.get(st, fr, x.Cond))
		}
		tb, fb := fr.blk.Succs[0], fr.blk.Succs[1]
		if c.Const {
			// concretely decided branch: not counted against the unwinding bound (maxSteps guards)
			to := fb
			if c.U == 1 {
				to = tb
			}
			fr.prev, fr.blk, fr.ip = fr.blk, to, 0
			return
		}
		stT, stF := ex.branch(st, c)
		if stT != nil {
			ex.jump(stT, stT.top(), tb)
			ex.countVisit(stT, stT.top(), tb)
		}
		if stF != nil {
			ex.jump(stF, stF.top(), fb)
			ex.countVisit(stF, stF.top(), fb)
		}
		if stT != nil && stF != nil {
			// st is stT; queue the other
			ex.push(stF)
		}
	case *ssa.Jump:
		ex.jump(st, fr, fr.blk.Succs[0])
	case *ssa.Return:
		var v Value
		switch len(x.Results) {
		case 0:
		case 1:
			v = ex.get(st, fr, x.Results[0])
		default:
			t := make(Tuple, len(x.Results))
			for i, r := range x.Results {
				t[i] = ex.get(st, fr, r)
			}
			v = t
		}
		ex.ret(st, v)
	case *ssa.Panic:
		ex.raise(st, ex.get(st, fr, x.X), "")
	case *ssa.Defer:
		d := &deferred{instr: x}
		for _, a := range x.Call.Args {
			d.args = append(d.args, ex.get(st, fr, a))
		}
		if x.Call.IsInvoke() {
			recv := ex.get(st, fr, x.Call.Value)
			fn, rv := ex.resolveInvoke(recv, x.Call.Method)
			d.callee = fn
			d.args = append([]Value{rv}, d.args...)
		} else if callee := x.Call.StaticCallee(); callee != nil {
			d.callee = callee
			if mc, ok := x.Call.Value.(*ssa.MakeClosure); ok {
				d.fn = ex.get(st, fr, mc)
				d.callee = nil
			}
		} else {
			d.fn = ex.get(st, fr, x.Call.Value)
		}
		fr.defers = append(fr.defers, d)
		fr.ip++
	case *ssa.RunDefers:
		if n := len(fr.defers); n > 0 {
			d := fr.defers[n-1]
			fr.defers = fr.defers[:n-1]
			ex.callDeferred(st, d)
			return
		}
		fr.ip++
	case *ssa.Call:
		ex.callInstr(st, fr, x)
	case *ssa.Go:
		unsupported("go statement (thread mode only)")
	default:
		unsupported("SSA instruction %T", in)
	}
}

func (ex *Exec) unop(st *State, fr *Frame, x *ssa.UnOp) {
	v := ex.get(st, fr, x.X)
	switch x.Op {
	case token.MUL:
		p, ok := v.(Ptr)
		if !ok {
			unsupported("deref of %T", v)
		}
		if p.IsNil() {
			ex.raise(st, Iface{T: runtimeErrorType, V: StrC("nil dereference")}, "nil dereference")
			return
		}
		fr.regs[x] = ex.load(st, p)
	case token.NOT:
		fr.regs[x] = Not(v.(*Term))
	case token.SUB:
		switch t := v.(type) {
		case *Term:
			if t.Sort.K == SFP {
				fr.regs[x] = FPNeg(t)
			} else {
				fr.regs[x] = BVNeg(t)
			}
		case Complex:
			fr.regs[x] = Complex{FPNeg(t.Re), FPNeg(t.Im)}
		default:
			unsupported("negation of %T", v)
		}
	case token.XOR:
		fr.regs[x] = BVNot(v.(*Term))
	case token.ARROW:
		ex.chanRecv(st, fr, x, v)
		return
	default:
		unsupported("unop %s", x.Op)
	}
	fr.ip++
}

func f64OfConst(t *Term) float64 {
	if t.Sort.W == 64 {
		return math.Float64frombits(t.U)
	}
	return float64(math.Float32frombits(uint32(t.U)))
}
