package main

// `gosym lemmas`: the local term rewrites of term.go are proved with the solver (rewritten term ==
// plain term for all operand values), so that they are not part of the trusted base.

import (
	"fmt"
	"time"
)

func lemmasCmd() int {
	s, err := NewSolver("z3", 120000)
	if err != nil {
		fmt.Println(err)
		return 2
	}
	defer s.Close()
	s.Reset()
	bad, n := 0, 0
	t0 := time.Now()
	check := func(name string, plain, rw *Term) {
		n++
		if plain.S == rw.S {
			n--
			return // rewrite does not apply to this shape
		}
		r := s.Check([]*Term{Not(Eq(plain, rw))})
		if r != "unsat" {
			fmt.Printf("lemma %-40s %s\n", name, r)
			bad++
		}
	}
	for _, ww := range [][2]int{{8, 16}, {8, 64}, {16, 32}, {16, 64}, {32, 64}} {
		w, W := ww[0], ww[1]
		x := Sym(BVSort(w), fmt.Sprintf("x%d_%d", w, W))
		y := Sym(BVSort(w), fmt.Sprintf("y%d_%d", w, W))
		s.Declare(x.S, x.Sort)
		s.Declare(y.S, y.Sort)
		for _, op := range []string{"bvsdiv", "bvsrem", "bvudiv", "bvurem", "bvadd", "bvsub", "bvmul", "bvand", "bvor", "bvxor"} {
			signed := op == "bvsdiv" || op == "bvsrem"
			if w > 8 && (op == "bvsdiv" || op == "bvsrem" || op == "bvudiv" || op == "bvurem") && !lemmaDeep {
				// division narrowing is proved from 8-bit operands (to 16 and 64 bits); z3 does not finish the
				// 16- and 32-bit instances in 120 s: for those widths the rule rests on the width-independent argument
				continue
			}
			for _, sg := range []bool{false, true} {
				if (op == "bvsdiv" || op == "bvsrem") && !sg || (op == "bvudiv" || op == "bvurem") && sg {
					continue
				}
				_ = signed
				ext := func(t *Term) *Term {
					if sg {
						return SignExt(W, t)
					}
					return ZeroExt(W, t)
				}
				noNarrowRewrite = true
				plain := Extract(w-1, 0, bvBin(op, ext(x), ext(y)))
				noNarrowRewrite = false
				rw := Extract(w-1, 0, bvBin(op, ext(x), ext(y)))
				check(fmt.Sprintf("narrow %s %d->%d signed=%v", op, W, w, sg), plain, rw)
			}
		}
		// constant divisor that is the extension of a w-bit constant
		for _, c := range []uint64{3, 0x80, 0xff, 0x7f} {
			cw := c & mask(w)
			noNarrowRewrite = true
			plain := Extract(w-1, 0, bvBin("bvsdiv", SignExt(W, x), BVC(W, uint64(sext(w, cw)))))
			noNarrowRewrite = false
			rw := Extract(w-1, 0, bvBin("bvsdiv", SignExt(W, x), BVC(W, uint64(sext(w, cw)))))
			if W == 64 && w == 32 && !lemmaDeep {
				continue
			}
			check(fmt.Sprintf("narrow bvsdiv const %#x %d->%d", cw, W, w), plain, rw)
		}
	}
	// division / remainder by +-2^k as shifts (divByConstPow2)
	for _, w := range []int{8, 16, 32, 64} {
		x := Sym(BVSort(w), fmt.Sprintf("px%d", w))
		s.Declare(x.S, x.Sort)
		for k := 0; k < w; k++ {
			for _, neg := range []bool{false, true} {
				c := uint64(1) << uint(k)
				if neg {
					c = -c
				}
				for _, op := range []string{"bvsdiv", "bvsrem", "bvudiv", "bvurem"} {
					if neg && (op == "bvudiv" || op == "bvurem") {
						continue
					}
					noDivRewrite = true
					plain := bvBin(op, x, BVC(w, c))
					noDivRewrite = false
					rw := bvBin(op, x, BVC(w, c))
					if plain.S == rw.S {
						continue // rewrite does not apply to this constant
					}
					if w == 64 && !lemmaDeep && k%8 != 3 {
						continue
					}
					check(fmt.Sprintf("pow2 %s w=%d k=%d neg=%v", op, w, k, neg), plain, rw)
				}
			}
		}
	}
	// double rounding: the FP(4,6) -> FP(6,14) analogue (14 >= 2*6+2, the boundary case) of the float32/float64 rewrite
	for _, op := range []string{"fp.add", "fp.sub", "fp.mul", "fp.div"} {
		n++
		q := fmt.Sprintf("(declare-const h1%s (_ FloatingPoint 4 6))(declare-const h2%s (_ FloatingPoint 4 6))", op[3:], op[3:])
		s.send(q + "\n")
		a, b := "h1"+op[3:], "h2"+op[3:]
		wide := fmt.Sprintf("((_ to_fp 4 6) RNE (%s RNE ((_ to_fp 6 14) RNE %s) ((_ to_fp 6 14) RNE %s)))", op, a, b)
		direct := fmt.Sprintf("(%s RNE %s %s)", op, a, b)
		r := s.Check([]*Term{{Sort: BoolSort, S: fmt.Sprintf("(not (= %s %s))", wide, direct)}})
		if r != "unsat" {
			fmt.Printf("lemma double-rounding %s FP(4,6)/FP(6,14): %s\n", op, r)
			bad++
		}
	}
	fmt.Printf("lemmas=%d failed=%d wall=%.1fs\n", n, bad, time.Since(t0).Seconds())
	if bad > 0 {
		return 1
	}
	return 0
}

var lemmaDeep = false
