package main

import (
	"fmt"
	"go/types"

	"golang.org/x/tools/go/ssa"
)

// Value is one of:
//
//	*Term                       scalar (bool, intN, floatN, string)
//	Complex                     complex64/128
//	*StructV                    struct value (immutable)
//	*ArrV                       array value / slice backing store (immutable)
//	Ptr                         pointer (Obj==0: nil)
//	SliceV                      slice header
//	Iface                       interface value (T==nil: nil interface)
//	*Closure                    func value (nil pointer: nil func)
//	MapV                        map reference (Obj==0: nil map)
//	Tuple                       multiple results
//	Opaque                      value the engine does not look into (chan, stubbed library objects)
//	RType / XType / RValue      typed-cell model of reflect.Type, xreflect.Type, reflect.Value
type Value interface{}

type Complex struct{ Re, Im *Term }

type StructV struct{ F []Value }

type ArrV struct {
	Elems []Value
}

type PathElem struct {
	Field int // >=0: struct field
	Idx   int // concrete element index when Field == -1
}

type Ptr struct {
	Obj  int
	Path []PathElem
	View types.Type // non-nil: reinterpretation through unsafe.Pointer (elem type seen by load/store)
	Fn   *Closure   // pointer-to-func identity is not needed; unused
}

func (p Ptr) IsNil() bool { return p.Obj == 0 }

type SliceV struct {
	Obj      int // backing array object (ArrV); 0 = nil slice
	Off      int
	Len, Cap *Term // BV64
}

type Iface struct {
	T types.Type
	V Value
}

type Closure struct {
	Fn    *ssa.Function
	Binds []Value
	// Stub: opaque function symbol (name) when Fn == nil
	Stub string
	ID   int
}

type MapV struct{ Obj int }

// map object stored in heap
type MapObj struct {
	Keys []Value
	Vals []Value
}

type Tuple []Value

type Opaque struct {
	ID  string
	Typ types.Type
}

// typed-cell model
type RType struct{ T types.Type } // reflect.Type
type XType struct{ T types.Type } // xreflect.Type (nil T = nil type)
type RValue struct {
	T        types.Type // nil = invalid Value
	Imm      Value      // value when not addressable
	Loc      *Ptr       // location when addressable (settable)
	Settable bool
}

// Channel object (very small model: buffered queue); see stubs.
type ChanObj struct {
	Buf    []Value
	Cap    int
	Closed bool
}

func fmtValue(v Value) string {
	switch x := v.(type) {
	case nil:
		return "<nil>"
	case *Term:
		return x.S
	case Complex:
		return fmt.Sprintf("complex(%s, %s)", x.Re.S, x.Im.S)
	case *StructV:
		s := "{"
		for i, f := range x.F {
			if i > 0 {
				s += ", "
			}
			s += fmtValue(f)
		}
		return s + "}"
	case *ArrV:
		return fmt.Sprintf("[%d]elems", len(x.Elems))
	case Ptr:
		if x.Obj == 0 {
			return "nilptr"
		}
		return fmt.Sprintf("&obj%d%v", x.Obj, x.Path)
	case SliceV:
		return fmt.Sprintf("slice(obj%d,off=%d,len=%s)", x.Obj, x.Off, x.Len.S)
	case Iface:
		if x.T == nil {
			return "nil-iface"
		}
		return fmt.Sprintf("iface<%s>(%s)", x.T, fmtValue(x.V))
	case *Closure:
		if x == nil {
			return "nilfunc"
		}
		if x.Fn != nil {
			return "closure " + x.Fn.String()
		}
		return "stubfunc " + x.Stub
	case Tuple:
		s := "("
		for i, f := range x {
			if i > 0 {
				s += ", "
			}
			s += fmtValue(f)
		}
		return s + ")"
	}
	return fmt.Sprintf("%T", v)
}

// ---------- type helpers ----------

func isSigned(t types.Type) bool {
	if b, ok := t.Underlying().(*types.Basic); ok {
		return b.Info()&types.IsInteger != 0 && b.Info()&types.IsUnsigned == 0
	}
	return false
}

func basicKind(t types.Type) (types.BasicKind, bool) {
	if b, ok := t.Underlying().(*types.Basic); ok {
		return b.Kind(), true
	}
	return 0, false
}

func intWidth(k types.BasicKind) int {
	switch k {
	case types.Int8, types.Uint8:
		return 8
	case types.Int16, types.Uint16:
		return 16
	case types.Int32, types.Uint32:
		return 32
	case types.Int, types.Int64, types.Uint, types.Uint64, types.Uintptr, types.UntypedInt, types.UntypedRune:
		return 64
	}
	return 0
}

// sortOf returns the SMT sort of a scalar Go type (ok=false for non-scalars).
func sortOf(t types.Type) (Sort, bool) {
	b, ok := t.Underlying().(*types.Basic)
	if !ok {
		return Sort{}, false
	}
	switch b.Kind() {
	case types.Bool, types.UntypedBool:
		return BoolSort, true
	case types.String, types.UntypedString:
		return StrSort, true
	case types.Float32:
		return F32Sort, true
	case types.Float64, types.UntypedFloat:
		return F64Sort, true
	case types.UnsafePointer, types.Complex64, types.Complex128, types.UntypedComplex, types.UntypedNil, types.Invalid:
		return Sort{}, false
	}
	if w := intWidth(b.Kind()); w > 0 {
		return BVSort(w), true
	}
	return Sort{}, false
}

// zeroValue builds the zero value of a Go type.
func zeroValue(t types.Type) Value {
	switch u := t.Underlying().(type) {
	case *types.Basic:
		switch u.Kind() {
		case types.Bool, types.UntypedBool:
			return False
		case types.String, types.UntypedString:
			return StrC("")
		case types.Float32:
			return F32C(0)
		case types.Float64, types.UntypedFloat:
			return F64C(0)
		case types.Complex64:
			return Complex{F32C(0), F32C(0)}
		case types.Complex128, types.UntypedComplex:
			return Complex{F64C(0), F64C(0)}
		case types.UnsafePointer:
			return Ptr{}
		case types.UntypedNil:
			return Iface{}
		}
		if w := intWidth(u.Kind()); w > 0 {
			return BVC(w, 0)
		}
	case *types.Struct:
		s := &StructV{F: make([]Value, u.NumFields())}
		for i := range s.F {
			s.F[i] = zeroValue(u.Field(i).Type())
		}
		return s
	case *types.Array:
		a := &ArrV{Elems: make([]Value, u.Len())}
		if u.Len() > 0 {
			z := zeroValue(u.Elem())
			for i := range a.Elems {
				a.Elems[i] = z
			}
		}
		return a
	case *types.Pointer:
		return Ptr{}
	case *types.Slice:
		return SliceV{Len: BVC(64, 0), Cap: BVC(64, 0)}
	case *types.Interface:
		return Iface{}
	case *types.Signature:
		return (*Closure)(nil)
	case *types.Map:
		return MapV{}
	case *types.Chan:
		return Ptr{}
	case *types.Tuple:
		tp := make(Tuple, u.Len())
		for i := range tp {
			tp[i] = zeroValue(u.At(i).Type())
		}
		return tp
	}
	panic(fmt.Sprintf("zeroValue: unsupported type %s", t))
}
