package main

// One persistent SMT solver process (z3 -in by default) driven with push/pop.

import (
	"bufio"
	"fmt"
	"io"
	"os"
	"os/exec"
	"strings"
	"sync/atomic"
	"time"
)

type Solver struct {
	name    string
	cmd     *exec.Cmd
	in      io.WriteCloser
	out     *bufio.Reader
	decls   []string // declarations sent since last reset (kept for re-spawn)
	Queries int
	Time    time.Duration
	Errors  int
	timeout int // ms
	dead    bool
	log     io.Writer
	sorts   map[string]string // declared constant -> sort
	ufSig   string            // declared functions (part of the cache key)
}

var totalQueries int64
var totalSolverNanos int64

func solverArgs(kind string, timeoutMs int) (string, []string) {
	switch kind {
	case "z3-new":
		return "z3-new", []string{"-in", fmt.Sprintf("-t:%d", timeoutMs)}
	case "cvc5":
		return "cvc5", []string{"--incremental", "--lang=smt2", "--strings-exp", "--produce-models", fmt.Sprintf("--tlimit-per=%d", timeoutMs)}
	default:
		return "z3", []string{"-in", fmt.Sprintf("-t:%d", timeoutMs)}
	}
}

func NewSolver(kind string, timeoutMs int) (*Solver, error) {
	s := &Solver{name: kind, timeout: timeoutMs}
	if err := s.spawn(); err != nil {
		return nil, err
	}
	return s, nil
}

func (s *Solver) spawn() error {
	bin, args := solverArgs(s.name, s.timeout)
	cmd := exec.Command(bin, args...)
	in, err := cmd.StdinPipe()
	if err != nil {
		return err
	}
	out, err := cmd.StdoutPipe()
	if err != nil {
		return err
	}
	cmd.Stderr = cmd.Stdout
	if err := cmd.Start(); err != nil {
		return err
	}
	s.cmd, s.in, s.out = cmd, in, bufio.NewReaderSize(out, 1<<16)
	s.dead = false
	if s.name == "cvc5" {
		s.send("(set-logic ALL)\n")
	}
	s.send("(set-option :produce-models true)\n")
	for _, d := range s.decls {
		s.send(d)
	}
	return nil
}

func (s *Solver) send(txt string) {
	if s.log != nil {
		io.WriteString(s.log, txt)
	}
	io.WriteString(s.in, txt)
}

func (s *Solver) Close() {
	if s.cmd != nil {
		s.in.Close()
		s.cmd.Process.Kill()
		s.cmd.Wait()
	}
}

// Reset forgets all declarations (new task).
func (s *Solver) Reset() {
	s.decls = nil
	s.sorts = map[string]string{}
	s.ufSig = ""
	if s.dead {
		s.Close()
		s.spawn()
		return
	}
	s.send("(reset)\n(set-option :produce-models true)\n")
	if s.name == "cvc5" {
		s.send("(set-logic ALL)\n")
	}
}

func (s *Solver) Declare(name string, sort Sort) {
	d := fmt.Sprintf("(declare-const %s %s)\n", name, sort)
	if s.sorts == nil {
		s.sorts = map[string]string{}
	}
	s.sorts[name] = sort.String()
	s.decls = append(s.decls, d)
	s.send(d)
}

func (s *Solver) DeclareFun(name string, args []Sort, res Sort) {
	var as []string
	for _, a := range args {
		as = append(as, a.String())
	}
	d := fmt.Sprintf("(declare-fun %s (%s) %s)\n", name, strings.Join(as, " "), res)
	s.ufSig += d
	s.decls = append(s.decls, d)
	s.send(d)
}

const marker = "<<gosym-done>>"

// roundtrip sends txt followed by an echo marker and returns the output lines before it.
func (s *Solver) roundtrip(txt string) []string {
	t0 := time.Now()
	s.send(txt)
	s.send("(echo \"" + marker + "\")\n")
	var lines []string
	deadline := time.Duration(s.timeout)*time.Millisecond*4 + 20*time.Second
	type res struct {
		l   string
		err error
	}
	for {
		ch := make(chan res, 1)
		go func() {
			l, err := s.out.ReadString('\n')
			ch <- res{l, err}
		}()
		var r res
		select {
		case r = <-ch:
		case <-time.After(deadline):
			s.dead = true
			s.cmd.Process.Kill()
			lines = append(lines, "unknown", "(error \"gosym: solver wall-clock deadline\")")
			s.Errors++
			d := time.Since(t0)
			s.Time += d
			atomic.AddInt64(&totalSolverNanos, int64(d))
			// respawn for the following queries
			s.cmd.Wait()
			s.spawn()
			return lines
		}
		if r.err != nil {
			s.dead = true
			lines = append(lines, "(error \"gosym: solver died\")")
			s.Errors++
			s.cmd.Wait()
			s.spawn()
			break
		}
		l := strings.TrimRight(r.l, "\r\n")
		if strings.Contains(l, marker) {
			break
		}
		lines = append(lines, l)
	}
	d := time.Since(t0)
	s.Time += d
	atomic.AddInt64(&totalSolverNanos, int64(d))
	return lines
}

// Check returns "sat", "unsat" or "unknown" for the conjunction of the assertions.
func (s *Solver) Check(asserts []*Term) string {
	r, _ := s.CheckModel(asserts, nil)
	return r
}

// CheckModel is Check plus, when sat, the values of the given terms (as raw SMT text).
func (s *Solver) CheckModel(asserts []*Term, want []*Term) (string, map[string]string) {
	var b strings.Builder
	b.WriteString("(push 1)\n")
	for _, a := range asserts {
		if a.Const && a.U == 1 {
			continue
		}
		b.WriteString("(assert ")
		b.WriteString(a.S)
		b.WriteString(")\n")
	}
	b.WriteString("(check-sat)\n")
	s.Queries++
	atomic.AddInt64(&totalQueries, 1)
	tq := time.Now()
	lines := s.roundtrip(b.String())
	if verbose && time.Since(tq) > 2*time.Second {
		fmt.Fprintf(os.Stderr, "[slow query %.1fs] %v (%d asserts, %d bytes)\n", time.Since(tq).Seconds(), lines, len(asserts), b.Len())
		if os.Getenv("GOSYM_DUMPSLOW") != "" {
			os.WriteFile(fmt.Sprintf("/tmp/slow_%d.smt2", s.Queries), []byte(strings.Join(s.decls, "")+b.String()), 0o644)
		}
	}
	verdict := "unknown"
	for _, l := range lines {
		if strings.HasPrefix(l, "(error") || strings.Contains(l, "(error ") {
			s.Errors++
			verdict = "unknown"
			break
		}
		if l == "sat" || l == "unsat" || l == "unknown" || l == "timeout" {
			verdict = l
			if l == "timeout" {
				verdict = "unknown"
			}
		}
	}
	var model map[string]string
	if verdict == "sat" && len(want) > 0 {
		model = map[string]string{}
		// one get-value per term keeps parsing trivial
		for _, w := range want {
			ls := s.roundtrip(fmt.Sprintf("(get-value (%s))\n", w.S))
			txt := strings.TrimSpace(strings.Join(ls, " "))
			if strings.Contains(txt, "(error") {
				continue
			}
			// ((name value))
			txt = strings.TrimPrefix(txt, "((")
			txt = strings.TrimSuffix(txt, "))")
			if strings.HasPrefix(txt, w.S) {
				model[w.S] = strings.TrimSpace(txt[len(w.S):])
			}
		}
	}
	if !s.dead {
		s.send("(pop 1)\n")
	}
	return verdict, model
}
