package main

import (
	"go/types"
	"strings"

	"golang.org/x/tools/go/ssa"
)

// CallCtx is handed to stubs.
type CallCtx struct {
	ex    *Exec
	st    *State
	fn    *ssa.Function // static callee when known
	name  string
	args  []Value
	instr ssa.Instruction
	retTo ssa.Value
	isDef bool
	sig   *types.Signature
}

type StubFn func(c *CallCtx)

// Return completes the stubbed call with value v on c.st.
func (c *CallCtx) Return(v Value) { c.ex.finishCall(c.st, c.retTo, v, c.isDef) }

// ReturnOn completes the call on another (forked) state.
func (c *CallCtx) ReturnOn(st *State, v Value) { c.ex.finishCall(st, c.retTo, v, c.isDef) }

func (c *CallCtx) Panic(v Value) { c.ex.raise(c.st, v, "") }

func (ex *Exec) finishCall(st *State, retTo ssa.Value, v Value, isDefer bool) {
	fr := st.top()
	if isDefer {
		// emulate return of a deferred stub call: same protocol as ret() for isDefer frames
		switch fr.mode {
		case modeUnwind:
			p := st.curPanic()
			if p != nil && p.Recovered {
				st.panics = st.panics[:len(st.panics)-1]
				fr.mode = modeRecovered
				ex.afterRecovered(st)
				return
			}
			ex.continueUnwind(st)
		case modeRecovered:
			ex.afterRecovered(st)
		}
		return
	}
	if retTo != nil {
		fr.regs[retTo] = v
	}
	fr.ip++
}

func (ex *Exec) callInstr(st *State, fr *Frame, x *ssa.Call) {
	call := &x.Call
	var args []Value
	for _, a := range call.Args {
		args = append(args, ex.get(st, fr, a))
	}
	if call.IsInvoke() {
		recv := ex.get(st, fr, call.Value)
		if isNilValue(recv) {
			ex.raise(st, Iface{T: runtimeErrorType, V: StrC("nil dereference")}, "nil dereference")
			return
		}
		// stubs on interface methods, keyed "invoke:<iface type>.<method>"
		key := "invoke:" + types.TypeString(call.Value.Type(), nil) + "." + call.Method.Name()
		if s, ok := ex.stubs[key]; ok {
			ex.stubSeen[key] = true
			s(&CallCtx{ex: ex, st: st, name: key, args: append([]Value{recv}, args...), instr: x, retTo: x, sig: call.Signature()})
			return
		}
		fn, rv := ex.resolveInvoke(recv, call.Method)
		ex.invoke(st, nil, fn, append([]Value{rv}, args...), x, false, x)
		return
	}
	if b, ok := call.Value.(*ssa.Builtin); ok {
		ex.builtin(st, fr, x, b, args)
		return
	}
	if callee := call.StaticCallee(); callee != nil {
		var fv Value
		if _, isClosure := call.Value.(*ssa.MakeClosure); isClosure {
			fv = ex.get(st, fr, call.Value)
			ex.invoke(st, fv, nil, args, x, false, x)
			return
		}
		ex.invoke(st, nil, callee, args, x, false, x)
		return
	}
	fv := ex.get(st, fr, call.Value)
	ex.invoke(st, fv, nil, args, x, false, x)
}

// resolveInvoke finds the concrete method for an interface call.
func (ex *Exec) resolveInvoke(recv Value, m *types.Func) (*ssa.Function, Value) {
	i, ok := recv.(Iface)
	if !ok {
		unsupported("invoke %s on %T", m.Name(), recv)
	}
	ms := ex.prog.MethodSets.MethodSet(i.T)
	sel := ms.Lookup(m.Pkg(), m.Name())
	if sel == nil {
		unsupported("method %s not found on %s", m.Name(), i.T)
	}
	fn := ex.prog.MethodValue(sel)
	if fn == nil {
		unsupported("abstract method %s on %s", m.Name(), i.T)
	}
	return fn, i.V
}

// invoke calls either a func value (fv) or a static function (callee).
func (ex *Exec) invoke(st *State, fv Value, callee *ssa.Function, args []Value, retTo ssa.Value, isDefer bool, instr ssa.Instruction) {
	var binds []Value
	if callee == nil {
		switch f := fv.(type) {
		case *Closure:
			if f == nil {
				ex.raise(st, Iface{T: runtimeErrorType, V: StrC("nil func call")}, "nil dereference")
				return
			}
			if f.Fn == nil {
				if strings.HasPrefix(f.Stub, "builtin:") {
					unsupported("indirect call of builtin %s", f.Stub)
				}
				s, ok := ex.stubs[f.Stub]
				if !ok {
					unsupported("call of opaque function %s", f.Stub)
				}
				ex.stubSeen[f.Stub] = true
				s(&CallCtx{ex: ex, st: st, name: f.Stub, args: append(append([]Value(nil), f.Binds...), args...), instr: instr, retTo: retTo, isDef: isDefer})
				return
			}
			callee, binds = f.Fn, f.Binds
		case XType:
			unsupported("direct call of xreflect.Type function value")
		default:
			unsupported("call of %T", fv)
		}
	}
	name := callee.String()
	if r, ok := ex.redirect[name]; ok {
		// harness-provided model of this function (listed in evidence as a stub)
		ex.stubSeen["redirect:"+name+" -> "+r.Name()] = true
		callee, name, binds = r, r.String(), nil
	}
	if s, ok := ex.lookupStub(callee, name); ok {
		ex.stubSeen[name] = true
		s(&CallCtx{ex: ex, st: st, fn: callee, name: name, args: args, instr: instr, retTo: retTo, isDef: isDefer, sig: callee.Signature})
		return
	}
	// bound method closures / thunks have synthetic bodies: fine, they are ordinary SSA
	if len(callee.Blocks) == 0 {
		unsupported("call of external function %s", name)
	}
	ex.pushFrame(st, callee, args, binds, retTo, isDefer)
}

func (ex *Exec) lookupStub(fn *ssa.Function, name string) (StubFn, bool) {
	bare := fn.Name()
	if i := strings.IndexByte(bare, '['); i > 0 {
		bare = bare[:i]
	}
	if s, ok := ex.intrinsic(bare); ok {
		return s, true
	}
	if s, ok := ex.stubs[name]; ok {
		return s, true
	}
	// (*CompGlobals).TypeOf<BasicKind>() : the universe's basic type objects
	const tof = "(*github.com/cosmos72/gomacro/fast.CompGlobals).TypeOf"
	if strings.HasPrefix(name, tof) {
		if t := basicTypeByName(strings.ToLower(name[len(tof):])); t != nil {
			return func(c *CallCtx) { c.Return(XType{T: t}) }, true
		}
	}
	// generic instantiations: strip type arguments  pkg.f[int8] -> pkg.f
	if i := strings.IndexByte(name, '['); i > 0 && strings.HasSuffix(name, "]") {
		if s, ok := ex.stubs[name[:i]]; ok {
			return s, true
		}
	}
	if fn.Pkg != nil {
		p := fn.Pkg.Pkg.Path()
		if s, ok := ex.stubs["pkg:"+p]; ok {
			return s, true
		}
	} else if fn.Signature.Recv() != nil {
		// methods of types from other packages (wrappers have no Pkg)
		if o := fn.Object(); o != nil && o.Pkg() != nil {
			if s, ok := ex.stubs["pkg:"+o.Pkg().Path()]; ok {
				return s, true
			}
		}
	}
	return nil, false
}

// ---------- builtins ----------

func (ex *Exec) builtin(st *State, fr *Frame, x *ssa.Call, b *ssa.Builtin, args []Value) {
	done := func(v Value) {
		f := st.top()
		f.regs[x] = v
		f.ip++
	}
	switch b.Name() {
	case "len":
		switch a := args[0].(type) {
		case *Term:
			done(StrLen(a))
		case SliceV:
			done(a.Len)
		case MapV:
			if a.Obj == 0 {
				done(BVC(64, 0))
				return
			}
			done(ex.mapLen(st, st.heap[a.Obj].(*MapObj)))
		case *ArrV:
			done(BVC(64, uint64(len(a.Elems))))
		case Ptr:
			at := x.Call.Args[0].Type().Underlying().(*types.Pointer).Elem().Underlying().(*types.Array)
			done(BVC(64, uint64(at.Len())))
		default:
			unsupported("len of %T", a)
		}
	case "cap":
		switch a := args[0].(type) {
		case SliceV:
			done(a.Cap)
		case *ArrV:
			done(BVC(64, uint64(len(a.Elems))))
		default:
			unsupported("cap of %T", a)
		}
	case "append":
		s := args[0].(SliceV)
		elem := x.Call.Args[0].Type().Underlying().(*types.Slice).Elem()
		ex.expandSeq(st, args[1], "append", func(s2 *State, add []Value) {
			v := ex.appendVals(s2, s, add, elem)
			f := s2.top()
			f.regs[x] = v
			f.ip++
		})
	case "copy":
		dst := args[0].(SliceV)
		ex.expandSeq(st, args[1], "copy", func(s2 *State, src []Value) {
			n := ex.copyVals(s2, dst, src)
			f := s2.top()
			f.regs[x] = BVC(64, uint64(n))
			f.ip++
		})
	case "delete":
		ex.mapDelete(st, args[0].(MapV), args[1])
		f := st.top()
		f.ip++
	case "recover":
		// legal only when called directly by a deferred function while panicking
		var v Value = Iface{}
		if fr.isDefer && len(st.frames) >= 2 {
			parent := st.frames[len(st.frames)-2]
			if p := st.curPanic(); p != nil && !p.Recovered && parent.mode == modeUnwind {
				p.Recovered = true
				v = p.Val
				if _, isI := v.(Iface); !isI {
					v = Iface{T: types.Typ[types.Int], V: v}
				}
			}
		}
		done(v)
	case "real":
		done(args[0].(Complex).Re)
	case "imag":
		done(args[0].(Complex).Im)
	case "complex":
		done(Complex{args[0].(*Term), args[1].(*Term)})
	case "print", "println":
		f := st.top()
		f.ip++
	case "min", "max":
		unsupported("builtin %s", b.Name())
	case "ssa:wrapnilchk":
		if isNilValue(args[0]) {
			ex.raise(st, Iface{T: runtimeErrorType, V: StrC("nil dereference")}, "nil dereference")
			return
		}
		done(args[0])
	default:
		unsupported("builtin %s", b.Name())
	}
}

// maxSeqExpand bounds the length of a symbolic string expanded element-wise by append/copy.
const maxSeqExpand = 16

// expandSeq calls f with the elements of a slice (concrete length) or string; a symbolic string forks on its length.
func (ex *Exec) expandSeq(st *State, v Value, what string, f func(st *State, elems []Value)) {
	switch t := v.(type) {
	case SliceV:
		n := ex.concreteInt(t.Len, what+": length of source slice")
		var out []Value
		if n > 0 {
			arr := st.heap[t.Obj].(*ArrV)
			out = append(out, arr.Elems[t.Off:t.Off+n]...)
		}
		f(st, out)
	case *Term:
		if t.Const {
			var out []Value
			for i := 0; i < len(t.Str); i++ {
				out = append(out, BVC(8, uint64(t.Str[i])))
			}
			f(st, out)
			return
		}
		ex.concretize(st, StrLen(t), maxSeqExpand+1, func(s2 *State, n int) {
			if n >= maxSeqExpand {
				unsupported("%s of a symbolic string longer than %d bytes", what, maxSeqExpand-1)
			}
			var out []Value
			for i := 0; i < n; i++ {
				out = append(out, StrAt(t, BVC(64, uint64(i))))
			}
			f(s2, out)
		})
	default:
		unsupported("%s of %T", what, v)
	}
}

// appendVals implements append(s, add...) for a slice of concrete length and capacity (growth: doubling, as far
// as harnesses may observe: only len, contents and aliasing-or-not are specified by the language).
func (ex *Exec) appendVals(st *State, s SliceV, add []Value, elem types.Type) SliceV {
	ln := ex.concreteInt(s.Len, "append: slice length")
	cp := ex.concreteInt(s.Cap, "append: slice capacity")
	if len(add) == 0 {
		return s
	}
	if ln+len(add) <= cp {
		arr := st.heap[s.Obj].(*ArrV)
		na := &ArrV{Elems: append([]Value(nil), arr.Elems...)}
		copy(na.Elems[s.Off+ln:], add)
		st.heapW()[s.Obj] = na
		return SliceV{Obj: s.Obj, Off: s.Off, Len: BVC(64, uint64(ln+len(add))), Cap: s.Cap}
	}
	newCap := 2 * cp
	if newCap < ln+len(add) {
		newCap = ln + len(add)
	}
	na := &ArrV{Elems: make([]Value, newCap)}
	z := zeroValue(elem)
	for i := range na.Elems {
		na.Elems[i] = z
	}
	if ln > 0 {
		arr := st.heap[s.Obj].(*ArrV)
		copy(na.Elems, arr.Elems[s.Off:s.Off+ln])
	}
	copy(na.Elems[ln:], add)
	id := ex.alloc(st, na)
	return SliceV{Obj: id, Len: BVC(64, uint64(ln+len(add))), Cap: BVC(64, uint64(newCap))}
}

// copyVals implements copy(dst, src...) and returns the number of elements copied.
func (ex *Exec) copyVals(st *State, dst SliceV, src []Value) int {
	n := ex.concreteInt(dst.Len, "copy: dst length")
	if len(src) < n {
		n = len(src)
	}
	if n > 0 {
		arr := st.heap[dst.Obj].(*ArrV)
		na := &ArrV{Elems: append([]Value(nil), arr.Elems...)}
		copy(na.Elems[dst.Off:dst.Off+n], src[:n])
		st.heapW()[dst.Obj] = na
	}
	return n
}

// ---------- maps (small association lists; keys compared with valEq) ----------

func (ex *Exec) mapLen(st *State, m *MapObj) *Term {
	return BVC(64, uint64(len(m.Keys)))
}

// findKey forks over which existing entry equals key (or none); f gets index or -1.
func (ex *Exec) findKey(st *State, m *MapObj, key Value, f func(s *State, i int)) {
	cur := st
	for i := range m.Keys {
		c := ex.valEq(m.Keys[i], key)
		yes, no := ex.branch(cur, c)
		if yes != nil {
			f(yes, i)
			if yes != st {
				ex.push(yes)
			}
		}
		cur = no
		if cur == nil {
			return
		}
	}
	f(cur, -1)
	if cur != st {
		ex.push(cur)
	}
}

func (ex *Exec) mapUpdate(st *State, fr *Frame, x *ssa.MapUpdate) {
	mv := ex.get(st, fr, x.Map).(MapV)
	key, val := ex.get(st, fr, x.Key), ex.get(st, fr, x.Value)
	if mv.Obj == 0 {
		ex.raise(st, Iface{T: runtimeErrorType, V: StrC("assignment to entry in nil map")}, "nil map write")
		return
	}
	m := st.heap[mv.Obj].(*MapObj)
	ex.findKey(st, m, key, func(s *State, i int) {
		nm := &MapObj{Keys: append([]Value(nil), m.Keys...), Vals: append([]Value(nil), m.Vals...)}
		if i < 0 {
			nm.Keys = append(nm.Keys, key)
			nm.Vals = append(nm.Vals, val)
		} else {
			nm.Vals[i] = val
		}
		s.heapW()[mv.Obj] = nm
		s.top().ip++
	})
}

func (ex *Exec) mapDelete(st *State, mv MapV, key Value) {
	if mv.Obj == 0 {
		return
	}
	m := st.heap[mv.Obj].(*MapObj)
	// NOTE: caller advances ip on st only; forks advance here
	first := true
	ex.findKey(st, m, key, func(s *State, i int) {
		if i >= 0 {
			nm := &MapObj{}
			for j := range m.Keys {
				if j != i {
					nm.Keys = append(nm.Keys, m.Keys[j])
					nm.Vals = append(nm.Vals, m.Vals[j])
				}
			}
			s.heapW()[mv.Obj] = nm
		}
		if s != st {
			s.top().ip++
		}
		_ = first
	})
}

func (ex *Exec) lookup(st *State, fr *Frame, x *ssa.Lookup) {
	base := ex.get(st, fr, x.X)
	key := ex.get(st, fr, x.Index)
	if s, ok := base.(*Term); ok { // string index
		idx := idx64(key, x.Index.Type())
		if !ex.guard(st, bvCmp("bvult", idx, StrLen(s)), "index out of range") {
			return
		}
		f := st.top()
		f.regs[x] = StrAt(s, idx)
		f.ip++
		return
	}
	mv := base.(MapV)
	vt := x.X.Type().Underlying().(*types.Map).Elem()
	fin := func(s *State, v Value, ok bool) {
		f := s.top()
		if x.CommaOk {
			f.regs[x] = Tuple{v, BoolC(ok)}
		} else {
			f.regs[x] = v
		}
		f.ip++
	}
	if mv.Obj == 0 {
		fin(st, zeroValue(vt), false)
		return
	}
	m := st.heap[mv.Obj].(*MapObj)
	ex.findKey(st, m, key, func(s *State, i int) {
		if i < 0 {
			fin(s, zeroValue(vt), false)
		} else {
			fin(s, m.Vals[i], true)
		}
	})
}

// range iterators: maps iterate in insertion order unless the harness asked for a symbolic permutation.
type iterState struct {
	keys, vals []Value
	pos        int
	str        *Term
	sym        []*Term // range over a symbolic string: its bytes (the length was made concrete by forking)
	isSym      bool
}

func (ex *Exec) rangeInit(st *State, fr *Frame, x *ssa.Range) {
	v := ex.get(st, fr, x.X)
	switch m := v.(type) {
	case MapV:
		it := &iterState{}
		if m.Obj != 0 {
			mo := st.heap[m.Obj].(*MapObj)
			it.keys, it.vals = mo.Keys, mo.Vals
		}
		fr.regs[x] = Opaque{ID: "iter", Typ: nil}
		id := ex.alloc(st, Opaque{ID: "iterstate"})
		st.heapW()[id] = it
		fr.regs[x] = Ptr{Obj: id}
	case *Term:
		if !m.Const {
			// fork on the length, keep the bytes symbolic; runes are decoded in rangeNext
			ex.concretize(st, StrLen(m), maxSeqExpand+1, func(s2 *State, n int) {
				if n >= maxSeqExpand {
					unsupported("range over a symbolic string longer than %d bytes", maxSeqExpand-1)
				}
				it := &iterState{isSym: true}
				for i := 0; i < n; i++ {
					it.sym = append(it.sym, StrAt(m, BVC(64, uint64(i))))
				}
				f2 := s2.top()
				id := ex.alloc(s2, it)
				f2.regs[x] = Ptr{Obj: id}
				f2.ip++
			})
			return
		}
		id := ex.alloc(st, &iterState{str: m})
		fr.regs[x] = Ptr{Obj: id}
	default:
		unsupported("range over %T", v)
	}
	fr.ip++
}

func (ex *Exec) rangeNext(st *State, fr *Frame, x *ssa.Next) {
	p := ex.get(st, fr, x.Iter).(Ptr)
	it := st.heap[p.Obj].(*iterState)
	tt := x.Type().(*types.Tuple)
	if x.IsString && it.isSym {
		ex.rangeNextSym(st, x, p, it)
		return
	}
	if x.IsString {
		s := it.str.Str
		if it.pos >= len(s) {
			fr.regs[x] = Tuple{False, BVC(64, 0), BVC(32, 0)}
		} else {
			r, size := decodeRune(s[it.pos:])
			fr.regs[x] = Tuple{True, BVC(64, uint64(it.pos)), BVC(32, uint64(r))}
			st.heapW()[p.Obj] = &iterState{str: it.str, pos: it.pos + size}
		}
		fr.ip++
		return
	}
	if it.pos >= len(it.keys) {
		kz, vz := Value(nil), Value(nil)
		if tt.At(1).Type() != nil && !isInvalid(tt.At(1).Type()) {
			kz = zeroValue(tt.At(1).Type())
		}
		if !isInvalid(tt.At(2).Type()) {
			vz = zeroValue(tt.At(2).Type())
		}
		fr.regs[x] = Tuple{False, kz, vz}
	} else {
		fr.regs[x] = Tuple{True, it.keys[it.pos], it.vals[it.pos]}
		st.heapW()[p.Obj] = &iterState{keys: it.keys, vals: it.vals, pos: it.pos + 1}
	}
	fr.ip++
}

// rangeNextSym decodes the next rune of a string with symbolic bytes exactly as Go does (unicode/utf8: shortest-form
// 1..4 byte sequences, surrogates and values above U+10FFFF rejected; an invalid sequence yields U+FFFD and consumes one byte)
func (ex *Exec) rangeNextSym(st *State, x *ssa.Next, p Ptr, it *iterState) {
	n := len(it.sym)
	if it.pos >= n {
		fr := st.top()
		fr.regs[x] = Tuple{False, BVC(64, 0), BVC(32, 0)}
		fr.ip++
		return
	}
	b := func(i int) *Term { return ZeroExt(32, it.sym[it.pos+i]) }
	in := func(t *Term, lo, hi uint64) *Term { return And(bvCmp("bvuge", t, BVC(32, lo)), bvCmp("bvule", t, BVC(32, hi))) }
	cont := func(i int) *Term { return in(b(i), 0x80, 0xBF) }
	low6 := func(i int) *Term { return bvBin("bvand", b(i), BVC(32, 0x3F)) }
	shl := func(t *Term, k uint64) *Term { return bvBin("bvshl", t, BVC(32, k)) }
	or := func(a ...*Term) *Term {
		r := a[0]
		for _, t := range a[1:] {
			r = bvBin("bvor", r, t)
		}
		return r
	}
	type alt struct {
		cond *Term
		r    *Term
		size int
	}
	alts := []alt{{bvCmp("bvult", b(0), BVC(32, 0x80)), b(0), 1}}
	if it.pos+1 < n {
		alts = append(alts, alt{And(in(b(0), 0xC2, 0xDF), cont(1)), or(shl(bvBin("bvand", b(0), BVC(32, 0x1F)), 6), low6(1)), 2})
	}
	if it.pos+2 < n {
		second := Or(And(Eq(b(0), BVC(32, 0xE0)), in(b(1), 0xA0, 0xBF)), And(Eq(b(0), BVC(32, 0xED)), in(b(1), 0x80, 0x9F)),
			And(in(b(0), 0xE1, 0xEF), Not(Eq(b(0), BVC(32, 0xED))), cont(1)))
		alts = append(alts, alt{And(second, cont(2)), or(shl(bvBin("bvand", b(0), BVC(32, 0x0F)), 12), shl(low6(1), 6), low6(2)), 3})
	}
	if it.pos+3 < n {
		second := Or(And(Eq(b(0), BVC(32, 0xF0)), in(b(1), 0x90, 0xBF)), And(Eq(b(0), BVC(32, 0xF4)), in(b(1), 0x80, 0x8F)),
			And(in(b(0), 0xF1, 0xF3), cont(1)))
		alts = append(alts, alt{And(second, cont(2), cont(3)), or(shl(bvBin("bvand", b(0), BVC(32, 0x07)), 18), shl(low6(1), 12), shl(low6(2), 6), low6(3)), 4})
	}
	finish := func(s2 *State, r *Term, size int) {
		fr := s2.top()
		fr.regs[x] = Tuple{True, BVC(64, uint64(it.pos)), r}
		s2.heapW()[p.Obj] = &iterState{isSym: true, sym: it.sym, pos: it.pos + size}
		fr.ip++
	}
	cur := st
	for _, a := range alts {
		if cur == nil {
			return
		}
		yes, no := ex.branch(cur, a.cond)
		if yes != nil {
			finish(yes, a.r, a.size)
			if yes != st {
				ex.push(yes)
			}
		}
		cur = no
	}
	if cur != nil {
		finish(cur, BVC(32, 0xFFFD), 1)
		if cur != st {
			ex.push(cur)
		}
	}
}

func isInvalid(t types.Type) bool {
	b, ok := t.(*types.Basic)
	return ok && b.Kind() == types.Invalid
}

func decodeRune(s string) (rune, int) {
	for i, r := range s {
		_ = i
		n := len(string(r))
		if r == 0xFFFD {
			n = 1
		}
		return r, n
	}
	return 0, 0
}

func (ex *Exec) chanRecv(st *State, fr *Frame, x *ssa.UnOp, v Value) {
	unsupported("channel receive")
}
