package main

// Typed-cell model of reflect.Value / reflect.Type / xreflect.Value / xreflect.Type:
// the reflect package documentation restated over the engine's value model.

import (
	"go/types"
	"reflect"
)

func reflectKind(t types.Type) reflect.Kind {
	if t == nil {
		return reflect.Invalid
	}
	switch u := t.Underlying().(type) {
	case *types.Basic:
		switch u.Kind() {
		case types.Bool, types.UntypedBool:
			return reflect.Bool
		case types.Int, types.UntypedInt:
			return reflect.Int
		case types.Int8:
			return reflect.Int8
		case types.Int16:
			return reflect.Int16
		case types.Int32, types.UntypedRune:
			return reflect.Int32
		case types.Int64:
			return reflect.Int64
		case types.Uint:
			return reflect.Uint
		case types.Uint8:
			return reflect.Uint8
		case types.Uint16:
			return reflect.Uint16
		case types.Uint32:
			return reflect.Uint32
		case types.Uint64:
			return reflect.Uint64
		case types.Uintptr:
			return reflect.Uintptr
		case types.Float32:
			return reflect.Float32
		case types.Float64, types.UntypedFloat:
			return reflect.Float64
		case types.Complex64:
			return reflect.Complex64
		case types.Complex128, types.UntypedComplex:
			return reflect.Complex128
		case types.String, types.UntypedString:
			return reflect.String
		case types.UnsafePointer:
			return reflect.UnsafePointer
		}
	case *types.Array:
		return reflect.Array
	case *types.Chan:
		return reflect.Chan
	case *types.Signature:
		return reflect.Func
	case *types.Interface:
		return reflect.Interface
	case *types.Map:
		return reflect.Map
	case *types.Pointer:
		return reflect.Ptr
	case *types.Slice:
		return reflect.Slice
	case *types.Struct:
		return reflect.Struct
	}
	return reflect.Invalid
}

func unwrapRV(v Value) RValue {
	switch x := v.(type) {
	case RValue:
		return x
	case *StructV: // xreflect.Value{rv}
		if len(x.F) == 1 {
			if r, ok := x.F[0].(RValue); ok {
				return r
			}
			// zero xreflect.Value: field holds zero reflect.Value (a StructV of reflect internals)
			return RValue{}
		}
		return RValue{}
	}
	unsupported("not a reflect.Value: %T", v)
	return RValue{}
}

func (c *CallCtx) isX() bool { // receiver/return type is xreflect.Value (a struct wrapping reflect.Value)?
	_, ok := c.args[0].(*StructV)
	return ok
}

func wrapRV(x bool, r RValue) Value {
	if x {
		return &StructV{F: []Value{r}}
	}
	return r
}

func (ex *Exec) rvGet(st *State, r RValue) Value {
	if r.Loc != nil {
		return ex.load(st, *r.Loc)
	}
	return r.Imm
}

func (c *CallCtx) reflectPanic(msg string) {
	c.ex.raise(c.st, Iface{T: runtimeErrorType, V: StrC("reflect: " + msg)}, "reflect: "+msg)
}

func kindIn(k reflect.Kind, lo, hi reflect.Kind) bool { return k >= lo && k <= hi }

func reflectStubs() map[string]StubFn {
	m := map[string]StubFn{}
	both := func(name string, f StubFn) {
		m["(reflect.Value)."+name] = f
		m["(github.com/cosmos72/gomacro/xreflect.Value)."+name] = f
	}
	valueOf := func(x bool) StubFn {
		return func(c *CallCtx) {
			i, ok := c.args[0].(Iface)
			if !ok {
				unsupported("ValueOf(%T)", c.args[0])
			}
			if i.T == nil {
				c.Return(wrapRV(x, RValue{}))
				return
			}
			if inner, ok := i.V.(RValue); ok { // ValueOf(reflect.Value) – keep as a struct value
				_ = inner
			}
			c.Return(wrapRV(x, RValue{T: i.T, Imm: i.V}))
		}
	}
	m["reflect.ValueOf"] = valueOf(false)
	m["github.com/cosmos72/gomacro/xreflect.ValueOf"] = valueOf(true)
	m["reflect.TypeOf"] = func(c *CallCtx) {
		i := c.args[0].(Iface)
		if i.T == nil {
			c.Return(Iface{})
			return
		}
		c.Return(Iface{T: rtypeImplType, V: RType{T: i.T}})
	}
	newOf := func(x bool) StubFn {
		return func(c *CallCtx) {
			var t types.Type
			switch a := c.args[0].(type) {
			case RType:
				t = a.T
			case XType:
				t = a.T
			case Iface: // reflect.Type interface holding RType
				t = a.V.(RType).T
			default:
				unsupported("reflect.New(%T)", a)
			}
			id := c.ex.alloc(c.st, zeroValue(t))
			c.Return(wrapRV(x, RValue{T: types.NewPointer(t), Imm: Ptr{Obj: id}}))
		}
	}
	m["reflect.New"] = newOf(false)
	m["github.com/cosmos72/gomacro/xreflect.New"] = newOf(true)
	zeroOf := func(x bool) StubFn {
		return func(c *CallCtx) {
			var t types.Type
			switch a := c.args[0].(type) {
			case RType:
				t = a.T
			case XType:
				t = a.T
			case Iface:
				t = a.V.(RType).T
			}
			if t == nil {
				c.reflectPanic("Zero(nil)")
				return
			}
			c.Return(wrapRV(x, RValue{T: t, Imm: zeroValue(t)}))
		}
	}
	m["reflect.Zero"] = zeroOf(false)
	m["github.com/cosmos72/gomacro/xreflect.Zero"] = zeroOf(true)
	m["github.com/cosmos72/gomacro/xreflect.ZeroR"] = zeroOf(true)

	both("Kind", func(c *CallCtx) { c.Return(BVC(64, uint64(reflectKind(unwrapRV(c.args[0]).T)))) })
	both("IsValid", func(c *CallCtx) { c.Return(BoolC(unwrapRV(c.args[0]).T != nil)) })
	both("CanSet", func(c *CallCtx) { c.Return(BoolC(unwrapRV(c.args[0]).Settable)) })
	both("CanInterface", func(c *CallCtx) { c.Return(BoolC(unwrapRV(c.args[0]).T != nil)) }) // harness structs have exported fields only
	both("CanAddr", func(c *CallCtx) { c.Return(BoolC(unwrapRV(c.args[0]).Loc != nil)) })
	both("Type", func(c *CallCtx) {
		r := unwrapRV(c.args[0])
		if r.T == nil {
			c.reflectPanic("Type of invalid Value")
			return
		}
		c.Return(Iface{T: rtypeImplType, V: RType{T: r.T}})
	})
	m["(github.com/cosmos72/gomacro/xreflect.Value).ReflectValue"] = func(c *CallCtx) { c.Return(unwrapRV(c.args[0])) }
	m["github.com/cosmos72/gomacro/xreflect.MakeValue"] = func(c *CallCtx) { c.Return(wrapRV(true, unwrapRV(c.args[0]))) }

	getter := func(name string, lo, hi reflect.Kind, conv func(c *CallCtx, k reflect.Kind, v Value) Value) {
		both(name, func(c *CallCtx) {
			r := unwrapRV(c.args[0])
			k := reflectKind(r.T)
			if !kindIn(k, lo, hi) {
				c.reflectPanic("call of Value." + name + " on " + k.String() + " Value")
				return
			}
			c.Return(conv(c, k, c.ex.rvGet(c.st, r)))
		})
	}
	getter("Int", reflect.Int, reflect.Int64, func(c *CallCtx, k reflect.Kind, v Value) Value { return SignExt(64, v.(*Term)) })
	getter("Uint", reflect.Uint, reflect.Uintptr, func(c *CallCtx, k reflect.Kind, v Value) Value { return ZeroExt(64, v.(*Term)) })
	getter("Float", reflect.Float32, reflect.Float64, func(c *CallCtx, k reflect.Kind, v Value) Value { return FPConvert(v.(*Term), 64) })
	getter("Complex", reflect.Complex64, reflect.Complex128, func(c *CallCtx, k reflect.Kind, v Value) Value {
		x := v.(Complex)
		return Complex{FPConvert(x.Re, 64), FPConvert(x.Im, 64)}
	})
	getter("Bool", reflect.Bool, reflect.Bool, func(c *CallCtx, k reflect.Kind, v Value) Value { return v })
	both("String", func(c *CallCtx) {
		r := unwrapRV(c.args[0])
		if reflectKind(r.T) != reflect.String {
			c.Return(StrC("<" + typeName(r.T) + " Value>"))
			return
		}
		c.Return(c.ex.rvGet(c.st, r))
	})

	setter := func(name string, lo, hi reflect.Kind, conv func(k reflect.Kind, t types.Type, v Value) Value) {
		both(name, func(c *CallCtx) {
			r := unwrapRV(c.args[0])
			k := reflectKind(r.T)
			if !r.Settable || r.Loc == nil {
				c.reflectPanic(name + " using unaddressable value")
				return
			}
			if !kindIn(k, lo, hi) {
				c.reflectPanic("call of Value." + name + " on " + k.String() + " Value")
				return
			}
			c.ex.store(c.st, *r.Loc, conv(k, r.T, c.args[1]))
			c.Return(nil)
		})
	}
	setter("SetInt", reflect.Int, reflect.Int64, func(k reflect.Kind, t types.Type, v Value) Value {
		s, _ := sortOf(t)
		return Extract(s.W-1, 0, v.(*Term))
	})
	setter("SetUint", reflect.Uint, reflect.Uintptr, func(k reflect.Kind, t types.Type, v Value) Value {
		s, _ := sortOf(t)
		return Extract(s.W-1, 0, v.(*Term))
	})
	setter("SetFloat", reflect.Float32, reflect.Float64, func(k reflect.Kind, t types.Type, v Value) Value {
		s, _ := sortOf(t)
		return FPConvert(v.(*Term), s.W)
	})
	setter("SetComplex", reflect.Complex64, reflect.Complex128, func(k reflect.Kind, t types.Type, v Value) Value {
		x := v.(Complex)
		if k == reflect.Complex64 {
			return Complex{FPConvert(x.Re, 32), FPConvert(x.Im, 32)}
		}
		return x
	})
	setter("SetBool", reflect.Bool, reflect.Bool, func(k reflect.Kind, t types.Type, v Value) Value { return v })
	setter("SetString", reflect.String, reflect.String, func(k reflect.Kind, t types.Type, v Value) Value { return v })
	both("Set", func(c *CallCtx) {
		r := unwrapRV(c.args[0])
		x := unwrapRV(c.args[1])
		if !r.Settable || r.Loc == nil {
			c.reflectPanic("Set using unaddressable value")
			return
		}
		if x.T == nil {
			c.reflectPanic("Set with invalid Value")
			return
		}
		v := c.ex.rvGet(c.st, x)
		if _, isI := r.T.Underlying().(*types.Interface); isI {
			if _, srcI := x.T.Underlying().(*types.Interface); !srcI {
				v = Iface{T: x.T, V: v}
			}
		} else if !types.AssignableTo(x.T, r.T) {
			c.reflectPanic("Set: value of type " + typeName(x.T) + " is not assignable to type " + typeName(r.T))
			return
		}
		c.ex.store(c.st, *r.Loc, v)
		c.Return(nil)
	})
	both("Elem", func(c *CallCtx) {
		r := unwrapRV(c.args[0])
		x := c.isX()
		switch u := typeUnder(r.T).(type) {
		case *types.Pointer:
			p := c.ex.rvGet(c.st, r).(Ptr)
			if p.IsNil() {
				c.Return(wrapRV(x, RValue{}))
				return
			}
			c.Return(wrapRV(x, RValue{T: u.Elem(), Loc: &p, Settable: true}))
		case *types.Interface:
			i := c.ex.rvGet(c.st, r).(Iface)
			if i.T == nil {
				c.Return(wrapRV(x, RValue{}))
				return
			}
			c.Return(wrapRV(x, RValue{T: i.T, Imm: i.V}))
		default:
			c.reflectPanic("call of Value.Elem on " + reflectKind(r.T).String() + " Value")
		}
	})
	both("Addr", func(c *CallCtx) {
		r := unwrapRV(c.args[0])
		if r.Loc == nil {
			c.reflectPanic("Value.Addr of unaddressable value")
			return
		}
		c.Return(wrapRV(c.isX(), RValue{T: types.NewPointer(r.T), Imm: *r.Loc}))
	})
	both("Interface", func(c *CallCtx) {
		r := unwrapRV(c.args[0])
		if r.T == nil {
			c.reflectPanic("Value.Interface of invalid Value")
			return
		}
		v := c.ex.rvGet(c.st, r)
		if _, isI := r.T.Underlying().(*types.Interface); isI {
			c.Return(v)
			return
		}
		c.Return(Iface{T: r.T, V: v})
	})
	both("IsNil", func(c *CallCtx) {
		r := unwrapRV(c.args[0])
		switch reflectKind(r.T) {
		case reflect.Chan, reflect.Func, reflect.Interface, reflect.Map, reflect.Ptr, reflect.Slice, reflect.UnsafePointer:
			c.Return(BoolC(isNilValue(c.ex.rvGet(c.st, r))))
		default:
			c.reflectPanic("call of Value.IsNil on " + reflectKind(r.T).String() + " Value")
		}
	})
	// Pointer(): an address; only equality of addresses is meaningful: distinct objects get distinct numbers
	both("Pointer", func(c *CallCtx) {
		r := unwrapRV(c.args[0])
		v := c.ex.rvGet(c.st, r)
		if isNilValue(v) {
			c.Return(BVC(64, 0))
			return
		}
		p, ok := v.(Ptr)
		if !ok {
			unsupported("reflect.Value.Pointer on %T", v)
		}
		off := uint64(0)
		for _, pe := range p.Path {
			off = off*64 + uint64(pe.Field+2)*8 + uint64(pe.Idx)
		}
		c.Return(BVC(64, 0xc000000000+uint64(p.Obj)*0x10000+off%0x10000))
	})
	both("Len", func(c *CallCtx) {
		r := unwrapRV(c.args[0])
		v := c.ex.rvGet(c.st, r)
		switch x := v.(type) {
		case SliceV:
			c.Return(x.Len)
		case *ArrV:
			c.Return(BVC(64, uint64(len(x.Elems))))
		case *Term:
			if x.Sort.K == SString {
				c.Return(StrLen(x))
				return
			}
		case MapV:
			if x.Obj == 0 {
				c.Return(BVC(64, 0))
			} else {
				c.Return(c.ex.mapLen(c.st, c.st.heap[x.Obj].(*MapObj)))
			}
			return
		}
		if _, ok := v.(*Term); ok || v == nil {
			c.reflectPanic("call of Value.Len on " + reflectKind(r.T).String() + " Value")
		}
	})
	both("Cap", func(c *CallCtx) {
		r := unwrapRV(c.args[0])
		switch x := c.ex.rvGet(c.st, r).(type) {
		case SliceV:
			c.Return(x.Cap)
		case *ArrV:
			c.Return(BVC(64, uint64(len(x.Elems))))
		default:
			c.reflectPanic("call of Value.Cap on " + reflectKind(r.T).String() + " Value")
		}
	})
	both("Index", func(c *CallCtx) {
		r := unwrapRV(c.args[0])
		idx := c.args[1].(*Term)
		xw := c.isX()
		switch u := typeUnder(r.T).(type) {
		case *types.Slice:
			s := c.ex.rvGet(c.st, r).(SliceV)
			if !c.ex.guard(c.st, bvCmp("bvult", idx, s.Len), "reflect: slice index out of range") {
				return
			}
			n := c.ex.arrLen(c.st, s.Obj) - s.Off
			c.ex.concretize(c.st, idx, n, func(st *State, i int) {
				p := Ptr{Obj: s.Obj, Path: []PathElem{{Field: -1, Idx: s.Off + i}}}
				c.ReturnOn(st, wrapRV(xw, RValue{T: u.Elem(), Loc: &p, Settable: true}))
			})
		case *types.Array:
			n := int(u.Len())
			if !c.ex.guard(c.st, bvCmp("bvult", idx, BVC(64, uint64(n))), "reflect: array index out of range") {
				return
			}
			c.ex.concretize(c.st, idx, n, func(st *State, i int) {
				if r.Loc != nil {
					p := Ptr{Obj: r.Loc.Obj, Path: append(append([]PathElem(nil), r.Loc.Path...), PathElem{Field: -1, Idx: i})}
					c.ReturnOn(st, wrapRV(xw, RValue{T: u.Elem(), Loc: &p, Settable: r.Settable}))
				} else {
					c.ReturnOn(st, wrapRV(xw, RValue{T: u.Elem(), Imm: r.Imm.(*ArrV).Elems[i]}))
				}
			})
		case *types.Basic:
			if u.Info()&types.IsString != 0 {
				s := c.ex.rvGet(c.st, r).(*Term)
				if !c.ex.guard(c.st, bvCmp("bvult", idx, StrLen(s)), "reflect: string index out of range") {
					return
				}
				c.Return(wrapRV(xw, RValue{T: types.Typ[types.Uint8], Imm: StrAt(s, idx)}))
				return
			}
			c.reflectPanic("call of Value.Index on " + reflectKind(r.T).String() + " Value")
		default:
			c.reflectPanic("call of Value.Index on " + reflectKind(r.T).String() + " Value")
		}
	})
	both("Field", func(c *CallCtx) {
		r := unwrapRV(c.args[0])
		i := int(c.args[1].(*Term).U)
		u, ok := typeUnder(r.T).(*types.Struct)
		if !ok || !c.args[1].(*Term).Const || i >= u.NumFields() {
			c.reflectPanic("Field")
			return
		}
		if r.Loc != nil {
			p := Ptr{Obj: r.Loc.Obj, Path: append(append([]PathElem(nil), r.Loc.Path...), PathElem{Field: i})}
			c.Return(wrapRV(c.isX(), RValue{T: u.Field(i).Type(), Loc: &p, Settable: r.Settable && u.Field(i).Exported()}))
			return
		}
		c.Return(wrapRV(c.isX(), RValue{T: u.Field(i).Type(), Imm: r.Imm.(*StructV).F[i]}))
	})
	both("MapIndex", func(c *CallCtx) {
		r := unwrapRV(c.args[0])
		k := unwrapRV(c.args[1])
		u, ok := typeUnder(r.T).(*types.Map)
		if !ok {
			c.reflectPanic("call of Value.MapIndex on " + reflectKind(r.T).String() + " Value")
			return
		}
		xw := c.isX()
		mv := c.ex.rvGet(c.st, r).(MapV)
		if mv.Obj == 0 {
			c.Return(wrapRV(xw, RValue{}))
			return
		}
		mo := c.st.heap[mv.Obj].(*MapObj)
		key := c.ex.rvGet(c.st, k)
		c.ex.findKey(c.st, mo, key, func(st *State, i int) {
			if i < 0 {
				c.ReturnOn(st, wrapRV(xw, RValue{}))
			} else {
				c.ReturnOn(st, wrapRV(xw, RValue{T: u.Elem(), Imm: mo.Vals[i]}))
			}
		})
	})
	both("SetMapIndex", func(c *CallCtx) {
		r := unwrapRV(c.args[0])
		k := unwrapRV(c.args[1])
		e := unwrapRV(c.args[2])
		if _, ok := typeUnder(r.T).(*types.Map); !ok {
			c.reflectPanic("call of Value.SetMapIndex on " + reflectKind(r.T).String() + " Value")
			return
		}
		mv := c.ex.rvGet(c.st, r).(MapV)
		if mv.Obj == 0 {
			c.ex.raise(c.st, Iface{T: runtimeErrorType, V: StrC("assignment to entry in nil map")}, "nil map write")
			return
		}
		mo := c.st.heap[mv.Obj].(*MapObj)
		key := c.ex.rvGet(c.st, k)
		c.ex.findKey(c.st, mo, key, func(st *State, i int) {
			nm := &MapObj{}
			for j := range mo.Keys {
				if j != i || e.T != nil {
					nm.Keys = append(nm.Keys, mo.Keys[j])
					nm.Vals = append(nm.Vals, mo.Vals[j])
				}
			}
			if e.T != nil {
				val := c.ex.rvGet(st, e)
				if i < 0 {
					nm.Keys = append(nm.Keys, key)
					nm.Vals = append(nm.Vals, val)
				} else {
					nm.Vals[i] = val
				}
			}
			st.heapW()[mv.Obj] = nm
			c.ReturnOn(st, nil)
		})
	})
	both("Convert", func(c *CallCtx) {
		r := unwrapRV(c.args[0])
		var to types.Type
		switch a := c.args[1].(type) {
		case Iface:
			to = a.V.(RType).T
		case RType:
			to = a.T
		case XType:
			to = a.T
		}
		if r.T == nil {
			c.reflectPanic("Convert of invalid Value")
			return
		}
		v := c.ex.rvGet(c.st, r)
		if _, isI := to.Underlying().(*types.Interface); isI {
			if _, srcI := r.T.Underlying().(*types.Interface); !srcI {
				v = Iface{T: r.T, V: v}
			}
			c.Return(wrapRV(c.isX(), RValue{T: to, Imm: v}))
			return
		}
		if !types.ConvertibleTo(r.T, to) {
			c.reflectPanic("Convert: not convertible")
			return
		}
		if types.Identical(r.T.Underlying(), to.Underlying()) {
			c.Return(wrapRV(c.isX(), RValue{T: to, Imm: v}))
			return
		}
		c.Return(wrapRV(c.isX(), RValue{T: to, Imm: c.ex.convert(c.st, v, r.T, to)}))
	})
	sliceOp := func(three bool) StubFn {
		return func(c *CallCtx) {
			r := unwrapRV(c.args[0])
			lo, hi := c.args[1].(*Term), c.args[2].(*Term)
			v := c.ex.rvGet(c.st, r)
			switch s := v.(type) {
			case *Term:
				if three {
					c.reflectPanic("Slice3 of string")
					return
				}
				n := StrLen(s)
				if !c.ex.guard(c.st, And(bvCmp("bvule", lo, hi), bvCmp("bvule", hi, n)), "reflect: string slice index out of bounds") {
					return
				}
				c.Return(wrapRV(c.isX(), RValue{T: r.T, Imm: StrSub(s, lo, hi)}))
			case SliceV:
				max := s.Cap
				if three {
					max = c.args[3].(*Term)
				}
				ok := And(bvCmp("bvule", lo, hi), bvCmp("bvule", hi, max), bvCmp("bvule", max, s.Cap))
				if !c.ex.guard(c.st, ok, "reflect: slice index out of bounds") {
					return
				}
				xw := c.isX()
				n := c.ex.arrLen(c.st, s.Obj) - s.Off + 1
				c.ex.concretize(c.st, lo, n, func(st *State, l int) {
					sv := SliceV{Obj: s.Obj, Off: s.Off + l, Len: bvBin("bvsub", hi, BVC(64, uint64(l))), Cap: bvBin("bvsub", max, BVC(64, uint64(l)))}
					c.ReturnOn(st, wrapRV(xw, RValue{T: r.T, Imm: sv}))
				})
			case *ArrV:
				if r.Loc == nil {
					c.reflectPanic("Value.Slice: slice of unaddressable array")
					return
				}
				if len(r.Loc.Path) != 0 {
					unsupported("reflect Slice of an array embedded in another object")
				}
				at := r.T.Underlying().(*types.Array)
				n := BVC(64, uint64(at.Len()))
				max := n
				if three {
					max = c.args[3].(*Term)
				}
				ok := And(bvCmp("bvule", lo, hi), bvCmp("bvule", hi, max), bvCmp("bvule", max, n))
				if !c.ex.guard(c.st, ok, "reflect: array slice index out of bounds") {
					return
				}
				xw := c.isX()
				obj := r.Loc.Obj
				c.ex.concretize(c.st, lo, int(at.Len())+1, func(st *State, l int) {
					sv := SliceV{Obj: obj, Off: l, Len: bvBin("bvsub", hi, BVC(64, uint64(l))), Cap: bvBin("bvsub", max, BVC(64, uint64(l)))}
					c.ReturnOn(st, wrapRV(xw, RValue{T: types.NewSlice(at.Elem()), Imm: sv}))
				})
			default:
				unsupported("reflect Slice on %T", v)
			}
		}
	}
	both("Slice", sliceOp(false))
	both("Slice3", sliceOp(true))

	// Value.Call on a func value whose function is Go source known to the engine: arguments are checked against the
	// parameter types as reflect does, the function runs as an ordinary call, results come back as Values.
	callModel := func(c *CallCtx, isSlice bool) {
		r := unwrapRV(c.args[0])
		sig, ok := typeUnder(r.T).(*types.Signature)
		if !ok {
			c.reflectPanic("call of reflect.Value.Call on " + reflectKind(r.T).String() + " Value")
			return
		}
		if isSlice && !sig.Variadic() {
			c.reflectPanic("CallSlice of non-variadic function")
			return
		}
		fv := c.ex.rvGet(c.st, r)
		cl, _ := fv.(*Closure)
		if cl == nil {
			c.reflectPanic("call of nil function")
			return
		}
		if cl.Fn == nil {
			unsupported("reflect.Value.Call of opaque function %s", cl.Stub)
		}
		var in []Value
		if !isNilValue(c.args[1]) {
			sv := c.args[1].(SliceV)
			n := c.ex.concreteInt(sv.Len, "reflect.Value.Call: number of arguments")
			if n > 0 {
				in = c.st.heap[sv.Obj].(*ArrV).Elems[sv.Off : sv.Off+n]
			}
		}
		np := sig.Params().Len()
		packed := sig.Variadic() && !isSlice
		if (!packed && len(in) != np) || (packed && len(in) < np-1) {
			c.reflectPanic("Call with too few or too many input arguments")
			return
		}
		argv := make([]Value, np)
		var extra []Value
		var elemT types.Type
		if packed {
			elemT = sig.Params().At(np - 1).Type().Underlying().(*types.Slice).Elem()
		}
		for i, a := range in {
			ra := unwrapRV(a)
			var pt types.Type
			if packed && i >= np-1 {
				pt = elemT
			} else {
				pt = sig.Params().At(i).Type()
			}
			if ra.T == nil {
				c.reflectPanic("Call using zero Value argument")
				return
			}
			if !types.AssignableTo(ra.T, pt) {
				c.reflectPanic("Call using " + typeName(ra.T) + " as type " + typeName(pt))
				return
			}
			v := c.ex.rvGet(c.st, ra)
			if _, isI := pt.Underlying().(*types.Interface); isI {
				if _, srcI := ra.T.Underlying().(*types.Interface); !srcI {
					v = Iface{T: ra.T, V: v}
				}
			}
			if packed && i >= np-1 {
				extra = append(extra, v)
			} else {
				argv[i] = v
			}
		}
		if packed {
			if len(extra) == 0 {
				argv[np-1] = SliceV{Len: BVC(64, 0), Cap: BVC(64, 0)}
			} else {
				id := c.ex.alloc(c.st, &ArrV{Elems: extra})
				argv[np-1] = SliceV{Obj: id, Len: BVC(64, uint64(len(extra))), Cap: BVC(64, uint64(len(extra)))}
			}
		}
		xw := c.isX()
		res := sig.Results()
		fr := c.ex.pushFrame(c.st, cl.Fn, argv, cl.Binds, nil, false)
		retTo, isDef := c.retTo, c.isDef
		ex := c.ex
		fr.onRet = func(st *State, v Value) {
			var outs []Value
			switch res.Len() {
			case 0:
			case 1:
				outs = []Value{wrapRV(xw, RValue{T: res.At(0).Type(), Imm: v})}
			default:
				for i, e := range v.(Tuple) {
					outs = append(outs, wrapRV(xw, RValue{T: res.At(i).Type(), Imm: e}))
				}
			}
			if len(outs) == 0 {
				ex.finishCall(st, retTo, SliceV{Len: BVC(64, 0), Cap: BVC(64, 0)}, isDef)
				return
			}
			id := ex.alloc(st, &ArrV{Elems: outs})
			ex.finishCall(st, retTo, SliceV{Obj: id, Len: BVC(64, uint64(len(outs))), Cap: BVC(64, uint64(len(outs)))}, isDef)
		}
	}
	both("Call", func(c *CallCtx) { callModel(c, false) })
	both("CallSlice", func(c *CallCtx) { callModel(c, true) })

	// reflect.Append / xreflect.Append(s, x...): append of individually wrapped elements
	appendModel := func(xw bool) StubFn {
		return func(c *CallCtx) {
			s := unwrapRV(c.args[0])
			us, ok := typeUnder(s.T).(*types.Slice)
			if !ok {
				c.reflectPanic("call of reflect.Append on " + reflectKind(s.T).String() + " Value")
				return
			}
			var add []Value
			if !isNilValue(c.args[1]) {
				xs := c.args[1].(SliceV)
				n := c.ex.concreteInt(xs.Len, "reflect.Append: number of elements")
				for i := 0; i < n; i++ {
					e := unwrapRV(c.st.heap[xs.Obj].(*ArrV).Elems[xs.Off+i])
					if e.T == nil || !types.AssignableTo(e.T, us.Elem()) {
						c.reflectPanic("reflect.Append: value of type " + typeName(e.T) + " is not assignable to type " + typeName(us.Elem()))
						return
					}
					v := c.ex.rvGet(c.st, e)
					if _, isI := us.Elem().Underlying().(*types.Interface); isI {
						if _, srcI := e.T.Underlying().(*types.Interface); !srcI {
							v = Iface{T: e.T, V: v}
						}
					}
					add = append(add, v)
				}
			}
			sv := c.ex.rvGet(c.st, s).(SliceV)
			c.Return(wrapRV(xw, RValue{T: s.T, Imm: c.ex.appendVals(c.st, sv, add, us.Elem())}))
		}
	}
	m["reflect.Append"] = appendModel(false)
	m["github.com/cosmos72/gomacro/xreflect.Append"] = appendModel(true)
	m["(*github.com/cosmos72/gomacro/xreflect.Universe).FuncOf"] = func(c *CallCtx) {
		tuple := func(v Value) *types.Tuple {
			if isNilValue(v) {
				return nil
			}
			s := v.(SliceV)
			n := c.ex.concreteInt(s.Len, "Universe.FuncOf: number of types")
			var vars []*types.Var
			for i := 0; i < n; i++ {
				vars = append(vars, types.NewVar(0, nil, "", c.st.heap[s.Obj].(*ArrV).Elems[s.Off+i].(XType).T))
			}
			return types.NewTuple(vars...)
		}
		variadic := c.args[3].(*Term)
		if !variadic.Const {
			unsupported("Universe.FuncOf with symbolic variadic flag")
		}
		c.Return(XType{T: types.NewSignatureType(nil, nil, nil, tuple(c.args[1]), tuple(c.args[2]), variadic.U == 1)})
	}

	// ---- package-level helpers used by reflection-based container code ----
	m["reflect.Indirect"] = func(c *CallCtx) {
		r := unwrapRV(c.args[0])
		u, ok := typeUnder(r.T).(*types.Pointer)
		if !ok {
			c.Return(r)
			return
		}
		p := c.ex.rvGet(c.st, r).(Ptr)
		if p.IsNil() {
			c.Return(RValue{})
			return
		}
		c.Return(RValue{T: u.Elem(), Loc: &p, Settable: true})
	}
	m["reflect.AppendSlice"] = func(c *CallCtx) {
		s, t := unwrapRV(c.args[0]), unwrapRV(c.args[1])
		us, ok1 := typeUnder(s.T).(*types.Slice)
		ut, ok2 := typeUnder(t.T).(*types.Slice)
		if !ok1 || !ok2 {
			c.reflectPanic("call of reflect.AppendSlice on non-slice Value")
			return
		}
		if !types.Identical(us.Elem(), ut.Elem()) {
			c.reflectPanic("reflect.AppendSlice: " + typeName(us.Elem()) + " != " + typeName(ut.Elem()))
			return
		}
		sv := c.ex.rvGet(c.st, s).(SliceV)
		c.ex.expandSeq(c.st, c.ex.rvGet(c.st, t), "reflect.AppendSlice", func(st *State, add []Value) {
			c.ReturnOn(st, RValue{T: s.T, Imm: c.ex.appendVals(st, sv, add, us.Elem())})
		})
	}
	m["reflect.Copy"] = func(c *CallCtx) {
		d, s := unwrapRV(c.args[0]), unwrapRV(c.args[1])
		var de, se types.Type
		switch u := typeUnder(d.T).(type) {
		case *types.Slice:
			de = u.Elem()
		case *types.Array:
			de = u.Elem()
			if d.Loc == nil || !d.Settable {
				c.reflectPanic("reflect.Copy: unaddressable array value")
				return
			}
		default:
			c.reflectPanic("reflect.Copy: destination is not a slice or array")
			return
		}
		switch u := typeUnder(s.T).(type) {
		case *types.Slice:
			se = u.Elem()
		case *types.Array:
			se = u.Elem()
		case *types.Basic:
			if u.Info()&types.IsString == 0 {
				c.reflectPanic("reflect.Copy: source is not a slice, array or string")
				return
			}
			se = types.Typ[types.Uint8]
		default:
			c.reflectPanic("reflect.Copy: source is not a slice, array or string")
			return
		}
		if !types.Identical(de, se) {
			c.reflectPanic("reflect.Copy: " + typeName(de) + " != " + typeName(se))
			return
		}
		var dst SliceV
		switch dv := c.ex.rvGet(c.st, d).(type) {
		case SliceV:
			dst = dv
		case *ArrV:
			if len(d.Loc.Path) != 0 {
				unsupported("reflect.Copy into an array embedded in another object")
			}
			n := BVC(64, uint64(len(dv.Elems)))
			dst = SliceV{Obj: d.Loc.Obj, Len: n, Cap: n}
		}
		src := c.ex.rvGet(c.st, s)
		if a, ok := src.(*ArrV); ok {
			n := c.ex.copyVals(c.st, dst, a.Elems)
			c.Return(BVC(64, uint64(n)))
			return
		}
		c.ex.expandSeq(c.st, src, "reflect.Copy", func(st *State, elems []Value) {
			c.ReturnOn(st, BVC(64, uint64(c.ex.copyVals(st, dst, elems))))
		})
	}
	rtypeOf := func(v Value) types.Type {
		switch a := v.(type) {
		case Iface:
			if a.T == nil {
				return nil
			}
			return a.V.(RType).T
		case RType:
			return a.T
		}
		unsupported("reflect.Type argument %T", v)
		return nil
	}
	rtypeRet := func(c *CallCtx, t types.Type) { c.Return(Iface{T: rtypeImplType, V: RType{T: t}}) }
	m["reflect.PtrTo"] = func(c *CallCtx) { rtypeRet(c, types.NewPointer(rtypeOf(c.args[0]))) }
	m["reflect.PointerTo"] = m["reflect.PtrTo"]
	m["reflect.SliceOf"] = func(c *CallCtx) { rtypeRet(c, types.NewSlice(rtypeOf(c.args[0]))) }
	m["reflect.FuncOf"] = func(c *CallCtx) {
		tuple := func(v Value) *types.Tuple {
			if isNilValue(v) {
				return nil
			}
			s := v.(SliceV)
			n := c.ex.concreteInt(s.Len, "reflect.FuncOf: number of types")
			var vars []*types.Var
			for i := 0; i < n; i++ {
				vars = append(vars, types.NewVar(0, nil, "", rtypeOf(c.st.heap[s.Obj].(*ArrV).Elems[s.Off+i])))
			}
			return types.NewTuple(vars...)
		}
		in, out := tuple(c.args[0]), tuple(c.args[1])
		variadic := c.args[2].(*Term)
		if !variadic.Const {
			unsupported("reflect.FuncOf with symbolic variadic flag")
		}
		if variadic.U == 1 {
			if in.Len() == 0 {
				c.reflectPanic("reflect.FuncOf: last arg of variadic func must be slice")
				return
			}
			if _, ok := in.At(in.Len() - 1).Type().Underlying().(*types.Slice); !ok {
				c.reflectPanic("reflect.FuncOf: last arg of variadic func must be slice")
				return
			}
		}
		rtypeRet(c, types.NewSignatureType(nil, nil, nil, in, out, variadic.U == 1))
	}

	// ---- xreflect.Type (a func type with methods) over types.Type ----
	xt := func(name string, f func(c *CallCtx, t types.Type)) {
		m["(github.com/cosmos72/gomacro/xreflect.Type)."+name] = func(c *CallCtx) {
			x, ok := c.args[0].(XType)
			if !ok {
				if isNilValue(c.args[0]) {
					x = XType{}
				} else {
					unsupported("xreflect.Type method %s on %T", name, c.args[0])
				}
			}
			f(c, x.T)
		}
	}
	xt("Kind", func(c *CallCtx, t types.Type) { c.Return(BVC(64, uint64(reflectKind(t)))) })
	xt("ReflectType", func(c *CallCtx, t types.Type) { c.Return(Iface{T: rtypeImplType, V: RType{T: t}}) })
	xt("Elem", func(c *CallCtx, t types.Type) {
		switch u := t.Underlying().(type) {
		case *types.Pointer:
			c.Return(XType{T: u.Elem()})
		case *types.Slice:
			c.Return(XType{T: u.Elem()})
		case *types.Array:
			c.Return(XType{T: u.Elem()})
		case *types.Map:
			c.Return(XType{T: u.Elem()})
		case *types.Chan:
			c.Return(XType{T: u.Elem()})
		default:
			c.reflectPanic("Elem of " + typeName(t))
		}
	})
	xt("In", func(c *CallCtx, t types.Type) {
		i := c.ex.concreteInt(c.args[1].(*Term), "Type.In index")
		c.Return(XType{T: t.Underlying().(*types.Signature).Params().At(i).Type()})
	})
	xt("Out", func(c *CallCtx, t types.Type) {
		i := c.ex.concreteInt(c.args[1].(*Term), "Type.Out index")
		c.Return(XType{T: t.Underlying().(*types.Signature).Results().At(i).Type()})
	})
	xt("NumIn", func(c *CallCtx, t types.Type) { c.Return(BVC(64, uint64(t.Underlying().(*types.Signature).Params().Len()))) })
	xt("NumOut", func(c *CallCtx, t types.Type) { c.Return(BVC(64, uint64(t.Underlying().(*types.Signature).Results().Len()))) })
	// base/reflect.KindToType: the reflect.Type of a basic kind (a table of r.TypeOf(T(0)) values in the real code)
	m["github.com/cosmos72/gomacro/base/reflect.KindToType"] = func(c *CallCtx) {
		k := reflect.Kind(c.ex.concreteInt(c.args[0].(*Term), "KindToType kind"))
		t := basicTypeByName(k.String())
		if t == nil {
			c.Return(Iface{})
			return
		}
		c.Return(Iface{T: rtypeImplType, V: RType{T: t}})
	}
	// the universe object itself is opaque: only its type constructors are modelled
	xt("Universe", func(c *CallCtx, t types.Type) { c.Return(Ptr{Obj: c.ex.alloc(c.st, &StructV{})}) })
	m["(*github.com/cosmos72/gomacro/xreflect.Universe).PtrTo"] = func(c *CallCtx) {
		c.Return(XType{T: types.NewPointer(c.args[1].(XType).T)})
	}
	m["(*github.com/cosmos72/gomacro/xreflect.Universe).SliceOf"] = func(c *CallCtx) {
		c.Return(XType{T: types.NewSlice(c.args[1].(XType).T)})
	}
	xt("Key", func(c *CallCtx, t types.Type) { c.Return(XType{T: t.Underlying().(*types.Map).Key()}) })
	xt("Len", func(c *CallCtx, t types.Type) { c.Return(BVC(64, uint64(t.Underlying().(*types.Array).Len()))) })
	xt("IdenticalTo", func(c *CallCtx, t types.Type) {
		u := c.args[1].(XType)
		if t == nil || u.T == nil {
			c.Return(BoolC(t == nil && u.T == nil))
			return
		}
		c.Return(BoolC(types.Identical(t, u.T)))
	})
	xt("AssignableTo", func(c *CallCtx, t types.Type) { c.Return(BoolC(types.AssignableTo(t, c.args[1].(XType).T))) })
	xt("ConvertibleTo", func(c *CallCtx, t types.Type) { c.Return(BoolC(types.ConvertibleTo(t, c.args[1].(XType).T))) })
	xt("Comparable", func(c *CallCtx, t types.Type) { c.Return(BoolC(types.Comparable(t))) })
	xt("Size", func(c *CallCtx, t types.Type) { c.Return(BVC(64, uint64(stdSizes.Sizeof(t)))) })
	xt("Named", func(c *CallCtx, t types.Type) { _, ok := t.(*types.Named); c.Return(BoolC(ok)) })
	xt("Name", func(c *CallCtx, t types.Type) {
		if n, ok := t.(*types.Named); ok {
			c.Return(StrC(n.Obj().Name()))
		} else if b, ok := t.(*types.Basic); ok {
			c.Return(StrC(b.Name()))
		} else {
			c.Return(StrC(""))
		}
	})
	xt("String", func(c *CallCtx, t types.Type) { c.Return(StrC(typeName(t))) })
	xt("NumMethod", func(c *CallCtx, t types.Type) { c.Return(BVC(64, 0)) })

	// reflect.Type interface methods on RType
	rt := func(name string, f func(c *CallCtx, t types.Type)) {
		m["invoke:reflect.Type."+name] = func(c *CallCtx) {
			var t types.Type
			switch a := c.args[0].(type) {
			case Iface:
				t = a.V.(RType).T
			case RType:
				t = a.T
			}
			f(c, t)
		}
	}
	rt("Kind", func(c *CallCtx, t types.Type) { c.Return(BVC(64, uint64(reflectKind(t)))) })
	rt("Size", func(c *CallCtx, t types.Type) { c.Return(BVC(64, uint64(stdSizes.Sizeof(t)))) })
	rt("Elem", func(c *CallCtx, t types.Type) {
		switch u := t.Underlying().(type) {
		case *types.Pointer:
			c.Return(Iface{T: rtypeImplType, V: RType{T: u.Elem()}})
		case *types.Slice:
			c.Return(Iface{T: rtypeImplType, V: RType{T: u.Elem()}})
		case *types.Array:
			c.Return(Iface{T: rtypeImplType, V: RType{T: u.Elem()}})
		case *types.Map:
			c.Return(Iface{T: rtypeImplType, V: RType{T: u.Elem()}})
		default:
			c.reflectPanic("Elem of " + typeName(t))
		}
	})
	rt("Key", func(c *CallCtx, t types.Type) {
		u, ok := t.Underlying().(*types.Map)
		if !ok {
			c.reflectPanic("Key of non-map type " + typeName(t))
			return
		}
		c.Return(Iface{T: rtypeImplType, V: RType{T: u.Key()}})
	})
	rt("String", func(c *CallCtx, t types.Type) { c.Return(StrC(typeName(t))) })
	rt("Name", func(c *CallCtx, t types.Type) {
		if n, ok := t.(*types.Named); ok {
			c.Return(StrC(n.Obj().Name()))
		} else if b, ok := t.(*types.Basic); ok {
			c.Return(StrC(b.Name()))
		} else {
			c.Return(StrC(""))
		}
	})
	rt("Len", func(c *CallCtx, t types.Type) { c.Return(BVC(64, uint64(t.Underlying().(*types.Array).Len()))) })
	rtArg := func(v Value) types.Type {
		switch a := v.(type) {
		case Iface:
			return a.V.(RType).T
		case RType:
			return a.T
		}
		unsupported("reflect.Type argument %T", v)
		return nil
	}
	// reflect's ConvertibleTo: Go's convertibility, except that reflect refuses complex <-> real conversions
	rt("ConvertibleTo", func(c *CallCtx, t types.Type) {
		u := rtArg(c.args[1])
		ok := types.ConvertibleTo(t, u)
		isC := func(x types.Type) bool {
			b, isB := x.Underlying().(*types.Basic)
			return isB && b.Info()&types.IsComplex != 0
		}
		isN := func(x types.Type) bool {
			b, isB := x.Underlying().(*types.Basic)
			return isB && b.Info()&types.IsNumeric != 0
		}
		if isN(t) && isN(u) && isC(t) != isC(u) {
			ok = false
		}
		c.Return(BoolC(ok))
	})
	rt("NumOut", func(c *CallCtx, t types.Type) { c.Return(BVC(64, uint64(t.Underlying().(*types.Signature).Results().Len()))) })
	rt("NumIn", func(c *CallCtx, t types.Type) { c.Return(BVC(64, uint64(t.Underlying().(*types.Signature).Params().Len()))) })
	rt("Out", func(c *CallCtx, t types.Type) {
		i := c.ex.concreteInt(c.args[1].(*Term), "Type.Out index")
		c.Return(Iface{T: rtypeImplType, V: RType{T: t.Underlying().(*types.Signature).Results().At(i).Type()}})
	})
	rt("In", func(c *CallCtx, t types.Type) {
		i := c.ex.concreteInt(c.args[1].(*Term), "Type.In index")
		c.Return(Iface{T: rtypeImplType, V: RType{T: t.Underlying().(*types.Signature).Params().At(i).Type()}})
	})
	rt("AssignableTo", func(c *CallCtx, t types.Type) { c.Return(BoolC(types.AssignableTo(t, rtArg(c.args[1])))) })
	return m
}

var stdSizes = types.SizesFor("gc", "amd64")

// rtypeImplType stands for reflect's private *rtype as the dynamic type inside a reflect.Type interface.
var rtypeImplType = types.NewNamed(types.NewTypeName(0, nil, "reflect.rtype", nil), types.NewStruct(nil, nil), nil)

func typeUnder(t types.Type) types.Type {
	if t == nil {
		return nil
	}
	return t.Underlying()
}

func typeName(t types.Type) string {
	if t == nil {
		return "<nil>"
	}
	return types.TypeString(t, func(p *types.Package) string { return p.Name() })
}
