package main

import (
	"flag"
	"fmt"
	"os"
)

func usage() {
	fmt.Fprintln(os.Stderr, `usage:
  gosym check <property-id> [--tier quick|thorough] [--only substring]
  gosym replay <replay.json>
  gosym selftest
  gosym list`)
	os.Exit(2)
}

func main() {
	if len(os.Args) < 2 {
		usage()
	}
	if d := os.Getenv("GOSYM_VERIF_DIR"); d != "" {
		verifDir = d
	}
	switch os.Args[1] {
	case "check":
		fs := flag.NewFlagSet("check", flag.ExitOnError)
		tier := fs.String("tier", "", "quick or thorough")
		only := fs.String("only", "", "run only harnesses containing this substring")
		if len(os.Args) < 3 {
			usage()
		}
		id := os.Args[2]
		fs.Parse(os.Args[3:])
		if *tier == "" {
			*tier = os.Getenv("VERIF_TIER")
		}
		if *tier != "thorough" {
			*tier = "quick"
		}
		os.Exit(checkProperty(id, *tier, *only))
	case "replay":
		if len(os.Args) < 3 {
			usage()
		}
		os.Exit(replayCmd(os.Args[2]))
	case "lemmas":
		lemmaDeep = len(os.Args) > 2 && os.Args[2] == "--deep"
		os.Exit(lemmasCmd())
	case "list":
		for id, pc := range propConfigs() {
			fmt.Println(id, pc.Prefix)
		}
	default:
		usage()
	}
}

var verbose = os.Getenv("GOSYM_VERBOSE") != ""
