package main

import (
	"encoding/json"
	"fmt"
	"os"
	"path/filepath"
	"strings"
)

func hfiles(rel string, names ...string) HarnessSet {
	hs := HarnessSet{PkgRel: rel}
	for _, n := range names {
		hs.Files = append(hs.Files, filepath.Join(verifDir, "harness", n))
	}
	return hs
}

func propConfigs() map[string]*PropConfig {
	m := map[string]*PropConfig{}
	add := func(pc *PropConfig) { m[pc.ID] = pc }
	add(&PropConfig{ID: "T00", Prefix: "VH_T00_", Sets: []HarnessSet{hfiles("fast", "selftest/t00.go")},
		Explain: "engine self-test"})
	add(&PropConfig{ID: "T02", Prefix: "VH_T02_", Sets: []HarnessSet{hfiles("fast", "selftest/t02_range.go")}, StrBytes: 8,
		Explain: "self-test: range over a symbolic string (rune decoding in the engine) against unicode/utf8.DecodeRuneInString executed from source"})
	add(&PropConfig{ID: "T01", Prefix: "VH_T01_", Sets: []HarnessSet{hfiles("fast", "selftest/t01_str.go")}, StrBytes: 8,
		Explain: "engine self-test: bounded bit-vector strings against Go string semantics on concrete vectors"})
	fastLib := "fast/lib_fast.go"
	add(&PropConfig{ID: "C01", Prefix: "VH_C01_", StrBytes: 8, Sets: []HarnessSet{hfiles("fast", fastLib, "fast/c01_binary_gen.go", "fast/c01_more_gen.go")},
		Thorough: func(n string) bool { return strings.Contains(n, "_T_") },
		Explain: "pattern B: the real Comp.BinaryExpr1/UnaryExpr/Symbol.expr compile functions are executed on symbolic operands per (operator, kind, constness shape); the returned closure is run and compared with the native Go operator"})
	add(&PropConfig{ID: "C02", Prefix: "VH_C02_", StrBytes: 8, TimeoutMs: 30000, Sets: []HarnessSet{hfiles("fast", fastLib, "fast/c01_binary_gen.go", "fast/c02_var_gen.go", "fast/c02_place_gen.go", "fast/c02_setvalue_gen.go", "fast/c02_multi.go")},
		Explain: "pattern B: the real Comp.setVar/setPlace compile functions are executed per (operator, kind, storage class, constness, closure depth); the returned statement closure is run on a chain of symbolic frames and the post-state compared with the native Go operator, including frame condition (all other slots unchanged), IP protocol and single evaluation"})
	add(&PropConfig{ID: "C37", Prefix: "VH_C37_", Sets: []HarnessSet{hfiles("fast", fastLib, "fast/c37.go")},
		Thorough: func(n string) bool { return strings.Contains(n, "_T_") },
		Redirect: map[string]string{"github.com/cosmos72/gomacro/fast.sortCmdList": "vhModelSortCmdList"},
		StrBytes: 16,
		Explain:  "patterns A/C: the real binarySearch, prefixSearch, removeCmd, Cmds.Add/Del/Lookup run on symbolic command names (SMT strings) and are compared with a linear-scan reference lookup"})
	add(&PropConfig{ID: "C14", Prefix: "VH_C14_", Sets: []HarnessSet{hfiles("fast", fastLib, "fast/c14.go", "fast/c14_address_gen.go")},
		Explain: "pattern C: the real BindClass.MakeDescriptor/Index/Class, Comp.NewBind, CompBinds.NewBind and Interp.prepareEnv are executed from an arbitrary state satisfying the slot invariant; post-conditions: slot allocation, frozen capacity honoured, existing slots preserved, no reallocation after an address escaped"})
	add(&PropConfig{ID: "C19", Prefix: "VH_C19_", Sets: []HarnessSet{hfiles("fast", fastLib, "fast/c19.go", "fast/c06.go"), hfiles("fast/debug", "debug/c19_cmd.go")},
		Redirect: map[string]string{"github.com/cosmos72/gomacro/gls.GoID": "vhModelGoID"},
		Explain: "patterns A/C: the real singleStep, Interp.debug, Run.applyDebugOp (package fast) and Debugger.cmdStep/cmdNext/cmdFinish/cmdContinue, Cmds.Lookup (package fast/debug) are executed with symbolic call depths; the debugger is a counting stub; assertions state the stop rule of each command"})
	add(&PropConfig{ID: "C13", Prefix: "VH_C13_", Sets: []HarnessSet{hfiles("fast", fastLib, "fast/c19.go", "fast/c06.go", "fast/c13.go", "fast/c07.go")},
		Redirect: map[string]string{"github.com/cosmos72/gomacro/gls.GoID": "vhModelGoID"},
		Explain: "the real Code.Exec / exec / execWithFlags / reExecWithFlags executor loops, spinInterrupt, Run.interrupt, Run.applyAsyncSignal, restore and base.Signals.IsEmpty are executed symbolically on compiled-code lists made of harness statements; the statement call at which the asynchronous interrupt arrives is enumerated over every position of the unrolled loops"})
	add(&PropConfig{ID: "C07", Prefix: "VH_C07_", Sets: []HarnessSet{hfiles("fast", fastLib, "fast/c19.go", "fast/c06.go", "fast/c13.go", "fast/c07.go")},
		Redirect: map[string]string{"github.com/cosmos72/gomacro/gls.GoID": "vhModelGoID", "(*github.com/cosmos72/gomacro/fast.Comp).expr1": "vhModelExpr1", "(*github.com/cosmos72/gomacro/fast.Comp).prepareCall": "vhModelPrepareCall"},
		Explain: "the real callRecover, pushDefer, popDefer, maybeRepanic and the defer machinery of reExecWithFlags (rundefer) are executed symbolically on function bodies made of harness statements; which calls panic / recover is symbolic"})
	add(&PropConfig{ID: "C12", Prefix: "VH_C12_", Sets: []HarnessSet{hfiles("fast", fastLib, "fast/c19.go", "fast/c06.go", "fast/c13.go", "fast/c07.go")},
		Redirect: map[string]string{"github.com/cosmos72/gomacro/gls.GoID": "vhModelGoID", "(*github.com/cosmos72/gomacro/fast.Interp).PrepareEnv": "vhModelPrepareEnv"},
		Explain: "the real exec / reExecWithFlags / restore / pushDefer / popDefer are executed on programs aborted by a panic at every statement position (and inside a deferred call); afterwards the bookkeeping is compared with the top-level values and probe evaluations (defer + panic + recover) are run on the same Run"})
	fp := "(*github.com/cosmos72/gomacro/fast."
	add(&PropConfig{ID: "C27", Prefix: "VH_C27_", StrBytes: 16, Sets: []HarnessSet{hfiles("fast", fastLib, "fast/c27.go"), hfiles("go/etoken", "etoken/c27_fileset.go")},
		Redirect: map[string]string{"(*github.com/cosmos72/gomacro/base.Globals).ReadMultiline": "vhModelReadMultiline", fp + "Comp).Parse": "vhModelParse",
			fp + "Interp).Cmd": "vhModelCmd", fp + "Interp).RunExpr": "vhModelRunExpr", "(*github.com/cosmos72/gomacro/base.Globals).Print": "vhModelPrint"},
		Explain: "the real Interp.ReadParseEvalPrint / Read / ParseEvalPrint / Parse / afterEval and Stringer.IncLine run on chunks whose comment prefix and code are symbolic byte strings; the reader, the parser entry (which records Globals.Line and the text it is given), command dispatch, execution and printing are replaced by models"})
	add(&PropConfig{ID: "C06", Prefix: "VH_C06_", Sets: []HarnessSet{hfiles("fast", fastLib, "fast/c19.go", "fast/c06.go", "fast/c06_address_gen.go", "fast/c06_func_gen.go", "fast/c06_call_gen.go")},
		Redirect: map[string]string{"github.com/cosmos72/gomacro/gls.GoID": "vhModelGoID", "(*github.com/cosmos72/gomacro/fast.Comp).expr1": "vhModelExpr1"},
		Explain: "pattern C: the real newEnv, NewEnv, newEnv4Func, freeEnv, FreeEnv, freeEnv4Func, MarkUsedByClosure and Var.Address are executed from arbitrary valid pool states; the goroutine identity (assembly) is a model returning a harness variable"})
	add(&PropConfig{ID: "C28", Prefix: "VH_C28_", StrBytes: 24, Thorough: func(n string) bool { return strings.Contains(n, "_T_") }, Sets: []HarnessSet{hfiles("go/typeutil", "typeutil/c28.go")},
		Explain: "pattern A/C on concrete type shapes with symbolic attributes: the real typeutil.Identical/identical, Hasher.Hash/hashFor/hashTuple/hashString and Map.Set/At/Delete/Len run on types built with the real go/types-fork constructors (executed from source)"})
	add(&PropConfig{ID: "C05", Prefix: "VH_C05_", Sets: []HarnessSet{hfiles("fast", fastLib, "fast/c19.go", "fast/c06.go", "fast/c13.go", "fast/c05_switch_gen.go", "fast/c05.go")},
		Redirect: map[string]string{"github.com/cosmos72/gomacro/gls.GoID": "vhModelGoID", fp + "Comp).Expr": "vhModelExpr", fp + "Comp).expr1": "vhModelExpr1", fp + "Comp).Block": "vhModelBlock", fp + "Comp).Stmt": "vhModelStmt",
			fp + "Comp).pushEnvIfLocalBinds": "vhModelPushEnv", fp + "Comp).popEnvIfLocalBinds": "vhModelPopEnv"},
		Explain: "the real switchGotoMap / switchGotoSlice (per integer kind, symbolic case constants and tag value), Comp.If and Comp.For are executed; sub-expressions and sub-statements are replaced by models that emit marker statements, and the emitted code is run by the real executor"})
	add(&PropConfig{ID: "C26", Prefix: "VH_C26_", StrBytes: 24, Sets: []HarnessSet{hfiles("base", "base/c26.go")},
		Thorough: func(n string) bool { return strings.Contains(n, "_T_") },
		Explain: "the real base.ReadMultiline runs on one input line = concrete prefix (each lexical mode and bracket depth) + symbolic bytes (all 256 values) + concrete suffix; the oracle is a reference lexical automaton over the same bytes"})
	add(&PropConfig{ID: "C04", Prefix: "VH_C04_", Sets: []HarnessSet{hfiles("base/untyped", "untyped/lib_untyped.go", "untyped/c04_convert_gen.go", "untyped/c04.go"), hfiles("fast", fastLib, "fast/c04_binary.go")},
		Explain: "the real untyped.ConvertLiteralCheckOverflow (with base/reflect.ConvertValue) and Lit.extractNumber / Lit.Convert are executed on symbolic constants; go/constant values are modelled as exact integers"})
	add(&PropConfig{ID: "C03", Prefix: "VH_C03_", StrBytes: 8, Sets: []HarnessSet{hfiles("fast", fastLib, "fast/c03_gen.go")},
		Explain: "the real Comp.convert is executed for every ordered pair of numeric basic kinds (non-constant operand) and a sample of constant operands; the returned closure / constant is compared with Go's conversion T(x) for all operand values for which the specification defines the result"})
	add(&PropConfig{ID: "C08", Prefix: "VH_C08_", StrBytes: 8, Sets: []HarnessSet{hfiles("fast", fastLib, "fast/c08_index_gen.go", "fast/c08.go", "fast/c08_builtin.go")},
		Redirect: map[string]string{"(*github.com/cosmos72/gomacro/fast.Comp).expr1": "vhModelExpr1", "(*github.com/cosmos72/gomacro/fast.Comp).LookupFieldOrMethod": "vhModelLookupFieldOrMethod", "(*github.com/cosmos72/gomacro/fast.Comp).LookupMethod": "vhModelLookupMethod"},
		Explain: "the real compileAppend/compileCopy/compileLen/compileCap/compileDelete + Comp.call_builtin on harness-supplied argument expressions (Comp.expr1 is a table lookup); the real vectorIndex, stringIndex, mapIndex, mapIndex1, slice2, slice3 and sliceString compile functions are executed per element kind and constness shape on symbolic slices, strings and maps; the returned closures are compared with Go's indexing / slicing / map reads including panic equivalence"})
	add(&PropConfig{ID: "C22", Prefix: "VH_C22_", StrBytes: 8, Sets: []HarnessSet{hfiles("ast2", "ast2/lib_ast2.go", "ast2/c22_gen.go")},
		Explain: "for each node wrapper of package ast2 a node with symbolic tokens, strings and flags and every presence/length combination of its children is copied with New + Get(i) + Set(i) for i < Size and compared field by field with the original"})
	add(&PropConfig{ID: "C36", Prefix: "VH_C36_", StrBytes: 8, Sets: []HarnessSet{hfiles("fast", fastLib, "fast/c36.go")},
		Thorough: func(n string) bool { return strings.Contains(n, "_T_") },
		Redirect: map[string]string{"sort.Strings": "vhSortModel"},
		Explain: "the real sortUnique and Comp.completeWord are executed on symbolic names; sort.Strings is replaced by an insertion-sort model"})
	xrp := "(*github.com/cosmos72/gomacro/xreflect.xtype)."
	add(&PropConfig{ID: "C34", Prefix: "VH_C34_", Sets: []HarnessSet{hfiles("xreflect", "xreflect/lib_xreflect.go", "xreflect/c34_gen.go", "xreflect/c34_container.go")},
		Redirect: map[string]string{xrp + "NumMethod": "vhModelNumMethod", xrp + "Method": "vhModelMethod", xrp + "GetMethods": "vhModelGetMethods",
			xrp + "NumExplicitMethod": "vhModelNumMethod", xrp + "method": "vhModelMethod", "reflect.MakeFunc": "vhModelMakeFunc"},
		Explain: "pattern B: the real Universe.addBasicTypeMethodsCTI is executed for each (kind, method name); the installed function value is extracted and compared with the Go operator for all operand values"})
	return m
}

func replayCmd(path string) int {
	data, err := os.ReadFile(path)
	if err != nil {
		fmt.Println(err)
		return 2
	}
	var rf replayFile
	if err := json.Unmarshal(data, &rf); err != nil {
		fmt.Println(err)
		return 2
	}
	pc, ok := propConfigs()[rf.Property]
	if !ok {
		fmt.Println("unknown property", rf.Property)
		return 2
	}
	res, out := runReplays(pc, rf.PkgRel, []string{path})
	r := res[path]
	fmt.Printf("replay %s: harness=%s assertion=%q result=%s\n", path, rf.Harness, rf.Label, r)
	if strings.HasPrefix(r, "reproduced") {
		fmt.Printf("VIOLATION property=%s replay=%s\n", rf.Property, path)
		return 1
	}
	if r == "" {
		fmt.Println(out)
	}
	return 0
}
