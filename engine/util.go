package main

import "go/types"

func basicTypeByName(n string) types.Type {
	for _, t := range types.Typ {
		if t.Name() == n && t.Info()&types.IsUntyped == 0 {
			return t
		}
	}
	return nil
}
