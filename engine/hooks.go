package main

// Native replay of harnesses that use PropConfig.Redirect: the engine replaces the real function by a
// harness model during symbolic execution; for the native replay the same substitution is made in an
// *overlay copy* of the source file (nothing is written under /repo): the real function is renamed to
// vhReal_<name> and a forwarding function with the original name calls a package-level hook variable,
// which the replay test's init() points at the harness model.

import (
	"bytes"
	"fmt"
	"go/ast"
	"go/parser"
	"go/printer"
	"go/token"
	"os"
	"path/filepath"
	"regexp"
	"strings"
)

var reRedirect = regexp.MustCompile(`^(?:\(\*?([^()]+)\.(\w+)\)|([^()]+))\.(\w+)$`)

type hookInfo struct {
	pkgPath, recv, name, model string
	hookVar                    string
}

// addHookOverlays rewrites the files defining redirected functions into ov and returns the Go source of an
// init() that installs the models (to be appended to the replay test file of harnessPkgPath).
func addHookOverlays(ov map[string][]byte, redirect map[string]string, harnessPkgPath string) (string, error) {
	if len(redirect) == 0 {
		return "", nil
	}
	var inits []string
	imports := map[string]string{}
	for real, model := range redirect {
		m := reRedirect.FindStringSubmatch(real)
		if m == nil {
			return "", fmt.Errorf("cannot parse redirect target %q", real)
		}
		h := hookInfo{name: m[4], model: model}
		if m[1] != "" {
			h.pkgPath, h.recv = m[1], m[2]
		} else {
			h.pkgPath = m[3]
		}
		if !strings.HasPrefix(h.pkgPath, repoMod) {
			continue // only functions of the repository can be substituted natively
		}
		// the model must be defined by the harness files of this package
		hdir := filepath.Join(repoDir, strings.TrimPrefix(strings.TrimPrefix(harnessPkgPath, repoMod), "/"))
		found := false
		for vp, content := range ov {
			if filepath.Dir(vp) == hdir && bytes.Contains(content, []byte("func "+model+"(")) {
				found = true
			}
		}
		if !found {
			continue
		}
		rel := strings.TrimPrefix(strings.TrimPrefix(h.pkgPath, repoMod), "/")
		dir := filepath.Join(repoDir, rel)
		h.hookVar = "VhHook_" + h.recv + "_" + h.name
		hooked, err := hookOneFunc(ov, dir, h)
		if err != nil {
			return "", err
		}
		if !hooked {
			continue
		}
		if h.pkgPath == harnessPkgPath {
			inits = append(inits, fmt.Sprintf("\t%s = %s", h.hookVar, h.model))
		} else {
			alias, ok := imports[h.pkgPath]
			if !ok {
				alias = fmt.Sprintf("vhhookpkg%d", len(imports))
				imports[h.pkgPath] = alias
			}
			inits = append(inits, fmt.Sprintf("\t%s.%s = %s", alias, h.hookVar, h.model))
		}
	}
	var b strings.Builder
	for p, a := range imports {
		fmt.Fprintf(&b, "import %s %q\n", a, p)
	}
	b.WriteString("\nfunc init() {\n" + strings.Join(inits, "\n") + "\n}\n")
	return b.String(), nil
}

func hookOneFunc(ov map[string][]byte, dir string, h hookInfo) (bool, error) {
	ents, err := os.ReadDir(dir)
	if err != nil {
		return false, err
	}
	for _, e := range ents {
		n := e.Name()
		if !strings.HasSuffix(n, ".go") || strings.HasSuffix(n, "_test.go") {
			continue
		}
		path := filepath.Join(dir, n)
		src, inOv := ov[path]
		if !inOv {
			src, err = os.ReadFile(path)
			if err != nil {
				continue
			}
		}
		fset := token.NewFileSet()
		f, err := parser.ParseFile(fset, path, src, parser.ParseComments)
		if err != nil {
			continue
		}
		for _, d := range f.Decls {
			fd, ok := d.(*ast.FuncDecl)
			if !ok || fd.Name.Name != h.name {
				continue
			}
			if fd.Body == nil {
				return false, nil // implemented in assembly: cannot be substituted natively, the real one runs
			}
			recvName, recvType := "", ""
			if fd.Recv != nil && len(fd.Recv.List) == 1 {
				recvType = exprText(fset, fd.Recv.List[0].Type)
				base := strings.TrimPrefix(recvType, "*")
				if base != h.recv {
					continue
				}
				if len(fd.Recv.List[0].Names) > 0 && fd.Recv.List[0].Names[0].Name != "_" {
					recvName = fd.Recv.List[0].Names[0].Name
				} else {
					recvName = "vhrecv"
				}
			} else if h.recv != "" {
				continue
			}
			// rename the real function
			off := fset.Position(fd.Name.Pos()).Offset
			var out bytes.Buffer
			out.Write(src[:off])
			out.WriteString("vhReal_" + h.name)
			out.Write(src[off+len(h.name):])
			// parameters
			var params, args, hookParams []string
			k := 0
			for _, fl := range fd.Type.Params.List {
				typ := exprText(fset, fl.Type)
				names := fl.Names
				if len(names) == 0 {
					names = []*ast.Ident{{Name: "_"}}
				}
				for _, nm := range names {
					pn := nm.Name
					if pn == "_" || pn == "" {
						pn = fmt.Sprintf("vhp%d", k)
					}
					k++
					params = append(params, pn+" "+typ)
					hookParams = append(hookParams, pn+" "+typ)
					if strings.HasPrefix(typ, "...") {
						args = append(args, pn+"...")
					} else {
						args = append(args, pn)
					}
				}
			}
			results := ""
			if fd.Type.Results != nil && len(fd.Type.Results.List) > 0 {
				var rs []string
				for _, fl := range fd.Type.Results.List {
					typ := exprText(fset, fl.Type)
					cnt := len(fl.Names)
					if cnt == 0 {
						cnt = 1
					}
					for i := 0; i < cnt; i++ {
						rs = append(rs, typ)
					}
				}
				results = "(" + strings.Join(rs, ", ") + ")"
			}
			ret := ""
			if results != "" {
				ret = "return "
			}
			hookArgs := strings.Join(args, ", ")
			fmt.Fprintf(&out, "\n\n// ---- verification hook (overlay only, never written to /repo) ----\n")
			if recvType != "" {
				hp := append([]string{recvName + " " + recvType}, hookParams...)
				fmt.Fprintf(&out, "var %s func(%s) %s\n\n", h.hookVar, strings.Join(hp, ", "), results)
				fmt.Fprintf(&out, "func (%s %s) %s(%s) %s {\n", recvName, recvType, h.name, strings.Join(params, ", "), results)
				ha := recvName
				if hookArgs != "" {
					ha += ", " + hookArgs
				}
				fmt.Fprintf(&out, "\tif %s != nil {\n\t\t%s%s(%s)\n\t\treturn\n\t}\n", h.hookVar, ret, h.hookVar, ha)
				fmt.Fprintf(&out, "\t%s%s.vhReal_%s(%s)\n}\n", ret, recvName, h.name, strings.Join(args, ", "))
			} else {
				fmt.Fprintf(&out, "var %s func(%s) %s\n\n", h.hookVar, strings.Join(hookParams, ", "), results)
				fmt.Fprintf(&out, "func %s(%s) %s {\n", h.name, strings.Join(params, ", "), results)
				fmt.Fprintf(&out, "\tif %s != nil {\n\t\t%s%s(%s)\n\t\treturn\n\t}\n", h.hookVar, ret, h.hookVar, hookArgs)
				fmt.Fprintf(&out, "\t%svhReal_%s(%s)\n}\n", ret, h.name, strings.Join(args, ", "))
			}
			txt := out.String()
			if ret != "" {
				// `return f(...)` followed by a bare `return` is unreachable but harmless; drop the bare one
				txt = strings.Replace(txt, ")\n\t\treturn\n\t}\n\t"+ret, ")\n\t}\n\t"+ret, 1)
			}
			ov[path] = []byte(txt)
			return true, nil
		}
	}
	return false, fmt.Errorf("redirected function %s.%s not found in %s", h.recv, h.name, dir)
}

func exprText(fset *token.FileSet, e ast.Expr) string {
	var b bytes.Buffer
	printer.Fprint(&b, fset, e)
	return b.String()
}
