package main

import (
	"fmt"
	"go/constant"
	"go/token"
	"go/types"
	"math"
	"math/big"
	"strings"

	"golang.org/x/tools/go/ssa"
)

// ---------- harness intrinsics (functions named vh* defined in the overlay harness library) ----------

func (ex *Exec) input(st *State, kind, name string, sort Sort) *Term {
	t := ex.fresh(sort, name)
	st.inputs = append(st.inputs, Input{Name: name, Kind: kind, T: t})
	return t
}

func strArg(v Value) string {
	if t, ok := v.(*Term); ok && t.Const {
		return t.Str
	}
	return "?"
}

func nondetInt(kind string, w int) StubFn {
	return func(c *CallCtx) {
		c.Return(c.ex.input(c.st, kind, strArg(c.args[0]), BVSort(w)))
	}
}

var intrinsics map[string]StubFn

func init() {
	intrinsics = map[string]StubFn{
		"vhU8": nondetInt("u8", 8), "vhU16": nondetInt("u16", 16), "vhU32": nondetInt("u32", 32), "vhU64": nondetInt("u64", 64),
		"vhI8": nondetInt("i8", 8), "vhI16": nondetInt("i16", 16), "vhI32": nondetInt("i32", 32), "vhI64": nondetInt("i64", 64),
		"vhInt": nondetInt("i64", 64), "vhUint": nondetInt("u64", 64), "vhUintptr": nondetInt("u64", 64),
		"vhBool": func(c *CallCtx) { c.Return(c.ex.input(c.st, "bool", strArg(c.args[0]), BoolSort)) },
		"vhF32": func(c *CallCtx) {
			b := c.ex.input(c.st, "f32", strArg(c.args[0]), BVSort(32))
			c.Return(FPFromBits(b))
		},
		"vhF64": func(c *CallCtx) {
			b := c.ex.input(c.st, "f64", strArg(c.args[0]), BVSort(64))
			c.Return(FPFromBits(b))
		},
		"vhC64": func(c *CallCtx) {
			re := c.ex.input(c.st, "f32", strArg(c.args[0])+"_re", BVSort(32))
			im := c.ex.input(c.st, "f32", strArg(c.args[0])+"_im", BVSort(32))
			c.Return(Complex{FPFromBits(re), FPFromBits(im)})
		},
		"vhC128": func(c *CallCtx) {
			re := c.ex.input(c.st, "f64", strArg(c.args[0])+"_re", BVSort(64))
			im := c.ex.input(c.st, "f64", strArg(c.args[0])+"_im", BVSort(64))
			c.Return(Complex{FPFromBits(re), FPFromBits(im)})
		},
		"vhStr": func(c *CallCtx) {
			s := c.ex.input(c.st, "str", strArg(c.args[0]), StrSort)
			// Go strings are byte strings: restrict to code points 0..255 and a small length
			maxLen := int64(8)
			if len(c.args) > 1 {
				if t, ok := c.args[1].(*Term); ok && t.Const {
					maxLen = int64(t.U)
				}
			}
			c.ex.constrainStr(c.st, s, maxLen, 0, 255)
			c.Return(s)
		},
		// vhStrRange(name, maxLen, lo, hi): a string of at most maxLen bytes, every byte in lo..hi
		"vhStrRange": func(c *CallCtx) {
			s := c.ex.input(c.st, "str", strArg(c.args[0]), StrSort)
			maxLen := int64(c.args[1].(*Term).U)
			lo, hi := c.args[2].(*Term).U, c.args[3].(*Term).U
			c.ex.constrainStr(c.st, s, maxLen, lo, hi)
			c.Return(s)
		},
		"vhAssume": func(c *CallCtx) {
			cond := c.args[0].(*Term)
			if cond.Const {
				if cond.U == 0 {
					c.st.status = "killed:assume"
					return
				}
				c.Return(nil)
				return
			}
			if c.ex.feasible(c.st, cond) == "unsat" {
				c.st.status = "killed:assume"
				return
			}
			c.st.addPC(cond)
			c.Return(nil)
		},
		"vhAssert": func(c *CallCtx) {
			cond := c.args[0].(*Term)
			label := strArg(c.args[1])
			c.ex.prove(c.st, cond, label)
			if c.st.status == "" {
				c.Return(nil)
			}
		},
		"vhReach": func(c *CallCtx) {
			c.st.reached = append(c.st.reached, strArg(c.args[0]))
			c.Return(nil)
		},
		"vhUnwind": func(c *CallCtx) {
			c.st.unwind = int(c.args[0].(*Term).U)
			c.Return(nil)
		},
		"vhSameF64": func(c *CallCtx) { c.Return(sameFloat(c.args[0].(*Term), c.args[1].(*Term))) },
		"vhSameF32": func(c *CallCtx) { c.Return(sameFloat(c.args[0].(*Term), c.args[1].(*Term))) },
		"vhSameC128": func(c *CallCtx) {
			a, b := c.args[0].(Complex), c.args[1].(Complex)
			c.Return(And(sameFloat(a.Re, b.Re), sameFloat(a.Im, b.Im)))
		},
		"vhSameC64": func(c *CallCtx) {
			a, b := c.args[0].(Complex), c.args[1].(Complex)
			c.Return(And(sameFloat(a.Re, b.Re), sameFloat(a.Im, b.Im)))
		},
		// vhTypeOf(x interface{}) xreflect.Type : the type object of x's dynamic type
		"vhTypeOf": func(c *CallCtx) {
			i := c.args[0].(Iface)
			c.Return(XType{T: i.T})
		},
		// vhConstFloatOK(f float64) bool : finite and not negative zero (values a typed constant can take)
	"vhConstFloatOK": func(c *CallCtx) {
		f := c.args[0].(*Term)
		if f.Const {
			v := f64OfConst(f)
			c.Return(BoolC(v == v && v-v == 0 && !(v == 0 && math.Signbit(v))))
			return
		}
		c.Return(And(Not(FPIsNaN(f)), Not(app(BoolSort, "fp.isInfinite", f)), Not(And(app(BoolSort, "fp.isZero", f), app(BoolSort, "fp.isNegative", f)))))
	},
	// vhPick(name, n) int : a concrete value in [0,n), one forked state per value (no solver involved)
	"vhPick": func(c *CallCtx) {
		n := int(c.args[1].(*Term).U)
		name := strArg(c.args[0])
		for i := n - 1; i >= 0; i-- {
			s := c.st
			if i > 0 {
				s = c.st.fork(c.ex)
			}
			v := BVC(64, uint64(i))
			s.inputs = append(s.inputs, Input{Name: name, Kind: "i64", T: v})
			c.ReturnOn(s, v)
			if i > 0 {
				c.ex.push(s)
			}
		}
	},
	// vhSymbolic() bool : true under the engine, false natively
		"vhSymbolic": func(c *CallCtx) { c.Return(True) },
		// vhConstInt(name) constant.Value: an untyped integer constant of arbitrary size (|c| < 2^130), exact (SMT Int)
		"vhConstInt": func(c *CallCtx) {
			z := c.ex.input(c.st, "bigint", strArg(c.args[0]), IntSort)
			lim := "1361129467683753853853498429727072845824" // 2^130
			c.st.addPC(&Term{Sort: BoolSort, S: fmt.Sprintf("(and (< (- %s) %s) (< %s %s))", lim, z.S, z.S, lim), size: 3})
			c.Return(Iface{T: constIntModelType, V: z})
		},
		// vhConstToF64(v): the constant rounded to nearest even float64 (what Go's conversion yields)
		"vhConstToF64": func(c *CallCtx) {
			z := c.args[0].(Iface).V.(*Term)
			c.Return(c.ex.constToFloat(c.st, z, 64))
		},
		"vhConstToF32": func(c *CallCtx) {
			z := c.args[0].(Iface).V.(*Term)
			c.Return(c.ex.constToFloat(c.st, z, 32))
		},
		// vhConstFits(v, lo, hi): lo <= c <= hi for int64 lo and uint64 hi
		"vhConstFits": func(c *CallCtx) {
			z := c.args[0].(Iface).V.(*Term)
			lo, hi := c.args[1].(*Term), c.args[2].(*Term)
			if !lo.Const || !hi.Const {
				unsupported("vhConstFits needs constant bounds")
			}
			los := fmt.Sprintf("%d", int64(lo.U))
			if int64(lo.U) < 0 {
				los = fmt.Sprintf("(- %d)", uint64(-int64(lo.U)))
			}
			c.Return(&Term{Sort: BoolSort, S: fmt.Sprintf("(and (<= %s %s) (<= %s %d))", los, z.S, z.S, hi.U), size: 4})
		},
		// vhConstEqI64(v, i): the constant is an integer equal to the int64 i
		"vhConstEqI64": func(c *CallCtx) {
			iv, ok := c.args[0].(Iface)
			if !ok || iv.T != constIntModelType {
				c.Return(False)
				return
			}
			c.Return(app(BoolSort, "=", iv.V.(*Term), sbv2int(c.args[1].(*Term))))
		},
		// vhConstAbsBelowPow2(v, k): |c| < 2^k for a concrete k
		"vhConstAbsBelowPow2": func(c *CallCtx) {
			z := c.args[0].(Iface).V.(*Term)
			k := c.args[1].(*Term)
			if !k.Const {
				unsupported("vhConstAbsBelowPow2 needs a constant exponent")
			}
			pow := new(big.Int).Lsh(big.NewInt(1), uint(k.U)).String()
			c.Return(&Term{Sort: BoolSort, S: fmt.Sprintf("(and (< (- %s) %s) (< %s %s))", pow, z.S, z.S, pow), size: 4})
		},
		// vhConstKind(v): v.Kind() as an int
		"vhConstKind": func(c *CallCtx) { c.Return(BVC(64, uint64(constKindOf(c.args[0])))) },
		// vhConstLow64(v): the low 64 bits of the constant (two's complement)
		"vhConstLow64": func(c *CallCtx) {
			z := c.args[0].(Iface).V.(*Term)
			c.Return(app(BVSort(64), "(_ int2bv 64)", z))
		},
	}
}

// constrainStr restricts a fresh symbolic string to at most maxLen bytes, each in lo..hi.
func (ex *Exec) constrainStr(st *State, s *Term, maxLen int64, lo, hi uint64) {
	if bstrL > 0 {
		if maxLen > int64(bstrL) {
			unsupported("symbolic string of up to %d bytes exceeds the representation bound %d", maxLen, bstrL)
		}
		st.addPC(bsCanonical(s))
		st.addPC(bvCmp("bvule", StrLen(s), BVC(64, uint64(maxLen))))
		if lo > 0 || hi < 255 {
			for i := int64(0); i < maxLen; i++ {
				b := StrAt(s, BVC(64, uint64(i)))
				st.addPC(Or(bvCmp("bvule", StrLen(s), BVC(64, uint64(i))), And(bvCmp("bvuge", b, BVC(8, lo)), bvCmp("bvule", b, BVC(8, hi)))))
			}
		}
		return
	}
	st.addPC(app(BoolSort, "<=", app(IntSort, "str.len", s), IntC(maxLen)))
	st.addPC(&Term{Sort: BoolSort, S: fmt.Sprintf("(str.in_re %s (re.* (re.range \"\\u{%x}\" \"\\u{%x}\")))", s.S, lo, hi), size: 3})
}

// nameTerm binds a large term to a fresh solver constant (terms are plain strings without sharing: naming
// keeps the if-then-else chains of the string stubs linear in size).
func (ex *Exec) nameTerm(st *State, t *Term, hint string) *Term {
	if t.Const || t.size < 12 {
		return t
	}
	v := ex.fresh(t.Sort, hint)
	st.addPC(Eq(v, t))
	return v
}

// constToFloat: the float nearest to the exact integer z, as an abstract symbol constrained by the contract of
// round-to-nearest (exact agreement with the machine conversion inside the 64-bit ranges, monotone outside):
// the solver never has to reason about Int -> Real -> FP conversions, which z3 cannot decide reliably.
func (ex *Exec) constToFloat(st *State, z *Term, bits int) *Term {
	key := fmt.Sprintf("%d:%s", bits, z.S)
	if ex.constFloats == nil {
		ex.constFloats = map[string]*Term{}
	}
	if f, ok := ex.constFloats[key]; ok {
		return f
	}
	sort := F64Sort
	if bits == 32 {
		sort = F32Sort
	}
	f := ex.fresh(sort, "constfloat")
	ex.constFloats[key] = f
	low := app(BVSort(64), "(_ int2bv 64)", z)
	inI64 := &Term{Sort: BoolSort, S: fmt.Sprintf("(and (<= (- 9223372036854775808) %s) (< %s 9223372036854775808))", z.S, z.S), size: 4}
	inU64 := &Term{Sort: BoolSort, S: fmt.Sprintf("(and (<= 0 %s) (< %s 18446744073709551616))", z.S, z.S), size: 4}
	isBig := &Term{Sort: BoolSort, S: fmt.Sprintf("(>= %s 18446744073709551616)", z.S), size: 2}
	small := &Term{Sort: BoolSort, S: fmt.Sprintf("(< %s (- 9223372036854775808))", z.S), size: 2}
	st.addPC(Implies(inI64, Eq(f, IntToFP(low, true, bits))))
	st.addPC(Implies(inU64, Eq(f, IntToFP(low, false, bits))))
	var two64, mtwo63 *Term
	if bits == 32 {
		two64, mtwo63 = F32C(18446744073709551616.0), F32C(-9223372036854775808.0)
	} else {
		two64, mtwo63 = F64C(18446744073709551616.0), F64C(-9223372036854775808.0)
	}
	st.addPC(Implies(isBig, fpCmp("fp.geq", f, two64)))
	st.addPC(Implies(small, fpCmp("fp.leq", f, mtwo63)))
	// rounding to nearest is monotone and powers of two are representable: |c| < 2^k <=> |f| < 2^k.
	// Stated for the exponents around the float32 range; a float64 is finite for every modelled constant (|c| < 2^130).
	if bits == 64 {
		st.addPC(Not(app(BoolSort, "fp.isInfinite", f)))
		st.addPC(Not(FPIsNaN(f)))
		for _, k := range []uint{127, 128, 129} {
			pow := new(big.Int).Lsh(big.NewInt(1), k)
			pf, _ := new(big.Float).SetInt(pow).Float64()
			below := &Term{Sort: BoolSort, S: fmt.Sprintf("(and (< (- %s) %s) (< %s %s))", pow, z.S, z.S, pow), size: 4}
			absBelow := And(fpCmp("fp.lt", f, F64C(pf)), fpCmp("fp.gt", f, F64C(-pf)))
			st.addPC(Eq(below, absBelow))
		}
	}
	return f
}

// freshStr: an unconstrained symbolic string (canonical in the bounded representation).
func (ex *Exec) freshStr(st *State, hint string) *Term {
	s := ex.fresh(StrSort, hint)
	if bstrL > 0 {
		st.addPC(bsCanonical(s))
	}
	return s
}

// concat: a ++ b; in the bounded representation paths on which the result would not fit are cut and counted.
func (ex *Exec) concat(st *State, a, b *Term) *Term {
	fits := strFits(a, b)
	if fits.Const {
		if fits.U == 0 {
			ex.boundHits["string longer than the representation bound"]++
			st.status = "killed:string-bound"
		}
		return StrConcat(a, b)
	}
	if ex.feasible(st, Not(fits)) != "unsat" {
		ex.boundHits["string longer than the representation bound"]++
	}
	st.addPC(fits)
	return StrConcat(a, b)
}

// sameFloat: both NaN, or identical bit patterns (so -0 != +0).
func sameFloat(a, b *Term) *Term {
	if a.S == b.S {
		return True
	}
	return Or(And(FPIsNaN(a), FPIsNaN(b)), And(Not(FPIsNaN(a)), Not(FPIsNaN(b)), Eq(FPToBits(a), FPToBits(b))))
}

// prove discharges an assertion on the current path: pc ∧ ¬cond must be unsat.
func (ex *Exec) prove(st *State, cond *Term, label string) {
	ob := &Obligation{Harness: ex.harness, Label: label, PathID: st.id, Size: cond.size}
	for _, p := range st.pc {
		ob.Size += p.size
	}
	ex.obligations = append(ex.obligations, ob)
	if cond.Const && cond.U == 1 {
		ob.Verdict = "proved"
		return
	}
	var want []*Term
	for _, in := range st.inputs {
		want = append(want, in.T)
	}
	as := append(append([]*Term(nil), st.pc...), Not(cond))
	var r string
	var model map[string]string
	if !noSlice {
		// cone-of-influence slice first (cached under its alpha-normalised text, fallback solvers
		// included): unsat of the slice proves the assertion; unknown is final for this shape
		r = ex.solver.DecideCached(st.pc, ex.fallbackBudget, Not(cond))
		if r == "unsat" {
			ob.Verdict = "proved"
			return
		}
	}
	if r != "unknown" {
		r, model = ex.solver.CheckModel(as, want)
		if r == "unknown" {
			var by string
			r, model, by = ex.solver.fallback(as, want, ex.fallbackBudget)
			if by != "" {
				ob.By = by
			}
		}
	}
	switch r {
	case "unsat":
		ob.Verdict = "proved"
	case "sat":
		ob.Verdict = "failed"
		for _, in := range st.inputs {
			ob.Model = append(ob.Model, InputVal{Name: in.Name, Kind: in.Kind, Val: model[in.T.S]})
		}
		// continue the path under the assumption that the assertion held (find further failures)
		if ex.feasible(st, cond) == "unsat" {
			st.status = "killed:assert-always-fails"
			return
		}
		st.addPC(cond)
	default:
		ob.Verdict = "unknown"
		st.addPC(cond)
	}
}

// ---------- default stub table ----------

func defaultStubs() map[string]StubFn {
	m := map[string]StubFn{}
	for k, v := range reflectStubs() {
		m[k] = v
	}
	for k, v := range libStubs() {
		m[k] = v
	}
	return m
}

func (ex *Exec) intrinsic(name string) (StubFn, bool) {
	if !strings.HasPrefix(name, "vh") {
		return nil, false
	}
	s, ok := intrinsics[name]
	return s, ok
}

// errorValue builds the value panicked by Errorf-style helpers.
func errorValue(kind string) Value {
	return Iface{T: compileErrorType, V: StrC(kind)}
}

// constIntModelType: dynamic type of a go/constant.Value holding an exact integer (model of constant.int64Val / intVal)
var constIntModelType = types.NewNamed(types.NewTypeName(0, nil, "constant.intModel", nil), types.NewStruct(nil, nil), nil)

// constRatModelType: an exact quotient of two integer constants (kind Float); constBoolModelType: a boolean constant
var constRatModelType = types.NewNamed(types.NewTypeName(0, nil, "constant.ratModel", nil), types.NewStruct(nil, nil), nil)
var constBoolModelType = types.NewNamed(types.NewTypeName(0, nil, "constant.boolModel", nil), types.NewStruct(nil, nil), nil)

func constKindOf(v Value) constant.Kind {
	if i, ok := v.(Iface); ok {
		switch i.T {
		case constIntModelType:
			return constant.Int
		case constRatModelType:
			return constant.Float
		case constBoolModelType:
			return constant.Bool
		}
	}
	unsupported("Kind of a go/constant value that is not modelled")
	return constant.Unknown
}

// sbv2int: the signed value of a bit-vector as an SMT Int
func sbv2int(b *Term) *Term {
	w := b.Sort.W
	pow := new(big.Int).Lsh(big.NewInt(1), uint(w)).String()
	nat := app(IntSort, "bv2nat", b)
	msb := app(BoolSort, "=", app(BVSort(1), fmt.Sprintf("(_ extract %d %d)", w-1, w-1), b), BVC(1, 1))
	return Ite(msb, app(IntSort, "-", nat, &Term{Sort: IntSort, S: pow, size: 1}), nat)
}

var errorPtrType = types.NewPointer(types.NewNamed(types.NewTypeName(0, nil, "errors.errorString", nil), types.NewStruct(nil, nil), nil))
var compileErrorType = types.NewNamed(types.NewTypeName(0, nil, "gomacro.CompileError", nil), types.NewStruct(nil, nil), nil)

func libStubs() map[string]StubFn {
	m := map[string]StubFn{}
	noop := func(c *CallCtx) {
		if c.sig != nil && c.sig.Results().Len() > 0 {
			unsupported("no-op stub for %s needs a result", c.name)
		}
		c.Return(nil)
	}
	errorf := func(c *CallCtx) { c.Panic(errorValue("Errorf:" + c.name)) }
	// gomacro's error helpers: terminate the path with a compile-error panic
	for _, n := range []string{
		"(*github.com/cosmos72/gomacro/fast.Comp).Errorf",
		"(*github.com/cosmos72/gomacro/base/output.Stringer).Errorf",
		"github.com/cosmos72/gomacro/base/output.Errorf",
		"github.com/cosmos72/gomacro/base.Errorf",
		"github.com/cosmos72/gomacro/xreflect.errorf",
		"github.com/cosmos72/gomacro/xreflect.xerrorf",
		"github.com/cosmos72/gomacro/base/reflect.errorf",
	} {
		m[n] = errorf
	}
	for _, n := range []string{
		"(*github.com/cosmos72/gomacro/base/output.Stringer).Debugf",
		"(*github.com/cosmos72/gomacro/base/output.Stringer).Warnf",
		"(*github.com/cosmos72/gomacro/base/output.Output).Debugf",
		"(*github.com/cosmos72/gomacro/base/output.Output).Warnf",
		"github.com/cosmos72/gomacro/base/output.Debugf",
		"github.com/cosmos72/gomacro/base/output.Warnf",
		"(*github.com/cosmos72/gomacro/fast.Comp).Debugf",
		"(*github.com/cosmos72/gomacro/fast.Comp).Warnf",
		"github.com/cosmos72/gomacro/xreflect.debugf",
	} {
		m[n] = noop
	}
	// fmt: results are opaque strings / errors
	m["fmt.Sprintf"] = func(c *CallCtx) { c.Return(c.ex.freshStr(c.st, "sprintf")) }
	m["fmt.Sprint"] = m["fmt.Sprintf"]
	// error values are pointers to fresh objects holding the message: two errors are equal only when they are
	// the same error value (as *errors.errorString behaves)
	newError := func(c *CallCtx, msg Value) Value {
		obj := c.ex.alloc(c.st, &StructV{F: []Value{msg}})
		return Iface{T: errorPtrType, V: Ptr{Obj: obj}}
	}
	m["fmt.Errorf"] = func(c *CallCtx) { c.Return(newError(c, c.ex.freshStr(c.st, "errorf"))) }
	m["errors.New"] = func(c *CallCtx) { c.Return(newError(c, c.args[0])) }
	m["fmt.Fprintf"] = func(c *CallCtx) { c.Return(Tuple{BVC(64, 0), Iface{}}) }
	m["fmt.Printf"] = m["fmt.Fprintf"]
	m["fmt.Println"] = m["fmt.Fprintf"]
	m["fmt.Fprintln"] = m["fmt.Fprintf"]
	m["fmt.Fprint"] = m["fmt.Fprintf"]
	// strings
	m["strings.HasPrefix"] = func(c *CallCtx) { c.Return(StrPrefixOf(c.args[1].(*Term), c.args[0].(*Term))) }
	m["strings.Count"] = func(c *CallCtx) {
		s, sep := c.ex.nameTerm(c.st, c.args[0].(*Term), "s"), c.args[1].(*Term)
		if s.Const && sep.Const {
			c.Return(BVC(64, uint64(strings.Count(s.Str, sep.Str))))
			return
		}
		if bstrL > 0 && sep.Const && len(sep.Str) == 1 {
			// exact: number of positions i < len(s) holding the byte
			n := BVC(64, 0)
			for i := 0; i < bstrL; i++ {
				hit := And(bvCmp("bvult", BVC(64, uint64(i)), StrLen(s)), Eq(StrAt(s, BVC(64, uint64(i))), BVC(8, uint64(sep.Str[0]))))
				n = bvBin("bvadd", n, Ite(hit, BVC(64, 1), BVC(64, 0)))
			}
			c.Return(c.ex.nameTerm(c.st, n, "count"))
			return
		}
		c.ex.declareUF("strcount", []Sort{StrSort, StrSort}, BVSort(64))
		c.Return(app(BVSort(64), "strcount", s, sep))
	}
	m["strings.Join"] = func(c *CallCtx) {
		sl, ok := c.args[0].(SliceV)
		if !ok || !sl.Len.Const {
			unsupported("strings.Join on a slice of symbolic length")
		}
		out := StrC("")
		if sl.Obj != 0 {
			arr := c.st.heap[sl.Obj].(*ArrV)
			for i := 0; i < int(sl.Len.U); i++ {
				if i > 0 {
					out = c.ex.concat(c.st, out, c.args[1].(*Term))
				}
				out = c.ex.concat(c.st, out, arr.Elems[sl.Off+i].(*Term))
			}
		}
		c.Return(out)
	}
	// error values built by the errors.New / fmt.Errorf stubs: Error() returns the payload
	m["invoke:error.Error"] = func(c *CallCtx) {
		i, ok := c.args[0].(Iface)
		if ok && i.T == errorPtrType {
			if p, isPtr := i.V.(Ptr); isPtr {
				if sv, isS := c.st.heap[p.Obj].(*StructV); isS && len(sv.F) == 1 {
					c.Return(sv.F[0])
					return
				}
			}
		}
		if ok && i.T == compileErrorType {
			if t, ok := i.V.(*Term); ok && t.Sort == StrSort {
				c.Return(t)
				return
			}
		}
		if !ok {
			unsupported("Error() on %T", c.args[0])
		}
		fn, rv := c.ex.resolveInvoke(i, c.instr.(*ssa.Call).Call.Method)
		c.ex.invoke(c.st, nil, fn, []Value{rv}, c.retTo, false, c.instr)
	}
	// strings.LastIndexByte / IndexByte on bounded strings: exact, as an if-then-else chain over the positions
	m["strings.LastIndexByte"] = func(c *CallCtx) {
		s, b := c.ex.nameTerm(c.st, c.args[0].(*Term), "s"), c.ex.nameTerm(c.st, c.args[1].(*Term), "b")
		if s.Const && b.Const {
			c.Return(BVC(64, uint64(int64(strings.LastIndexByte(s.Str, byte(b.U))))))
			return
		}
		if bstrL == 0 {
			unsupported("strings.LastIndexByte on a symbolic SMT-LIB string (use the bounded representation)")
		}
		res := BVC(64, ^uint64(0))
		for i := 0; i < bstrL; i++ {
			hit := And(bvCmp("bvult", BVC(64, uint64(i)), StrLen(s)), Eq(StrAt(s, BVC(64, uint64(i))), b))
			res = Ite(hit, BVC(64, uint64(i)), res)
		}
		c.Return(c.ex.nameTerm(c.st, res, "lastindex"))
	}
	m["strings.IndexByte"] = func(c *CallCtx) {
		s, b := c.ex.nameTerm(c.st, c.args[0].(*Term), "s"), c.ex.nameTerm(c.st, c.args[1].(*Term), "b")
		if s.Const && b.Const {
			c.Return(BVC(64, uint64(int64(strings.IndexByte(s.Str, byte(b.U))))))
			return
		}
		if bstrL == 0 {
			unsupported("strings.IndexByte on a symbolic SMT-LIB string (use the bounded representation)")
		}
		res := BVC(64, ^uint64(0))
		for i := bstrL - 1; i >= 0; i-- {
			hit := And(bvCmp("bvult", BVC(64, uint64(i)), StrLen(s)), Eq(StrAt(s, BVC(64, uint64(i))), b))
			res = Ite(hit, BVC(64, uint64(i)), res)
		}
		c.Return(res)
	}
	// strings.TrimSpace on bounded strings: exact for byte strings without multi-byte space runes
	// (U+0085 and U+00A0 need two bytes in UTF-8; lone bytes 0x85/0xa0 are not spaces)
	m["strings.TrimSpace"] = func(c *CallCtx) {
		s := c.ex.nameTerm(c.st, c.args[0].(*Term), "s")
		if s.Const {
			c.Return(StrC(strings.TrimSpace(s.Str)))
			return
		}
		if bstrL == 0 {
			unsupported("strings.TrimSpace on a symbolic SMT-LIB string (use the bounded representation)")
		}
		isSpace := func(b *Term) *Term {
			return Or(Eq(b, BVC(8, ' ')), And(bvCmp("bvuge", b, BVC(8, 9)), bvCmp("bvule", b, BVC(8, 13))))
		}
		n := StrLen(s)
		// lo = length of the leading run of spaces (within len)
		lo := BVC(64, 0)
		run := True
		for i := 0; i < bstrL; i++ {
			run = And(run, bvCmp("bvult", BVC(64, uint64(i)), n), isSpace(StrAt(s, BVC(64, uint64(i)))))
			lo = bvBin("bvadd", lo, Ite(run, BVC(64, 1), BVC(64, 0)))
		}
		// t = length of the trailing run of spaces
		t := BVC(64, 0)
		run = True
		for j := 0; j < bstrL; j++ {
			idx := bvBin("bvsub", bvBin("bvsub", n, BVC(64, 1)), BVC(64, uint64(j)))
			run = And(run, bvCmp("bvult", BVC(64, uint64(j)), n), isSpace(StrAt(s, idx)))
			t = bvBin("bvadd", t, Ite(run, BVC(64, 1), BVC(64, 0)))
		}
		allSpace := Eq(lo, n)
		hi := bvBin("bvsub", n, t)
		lo, hi = c.ex.nameTerm(c.st, lo, "lo"), c.ex.nameTerm(c.st, hi, "hi")
		c.Return(c.ex.nameTerm(c.st, Ite(allSpace, StrC(""), StrSub(s, lo, hi)), "trimmed"))
	}
	// ---- go/constant on integer constants: exact arithmetic (package documentation restated) ----
	constInt := func(v Value) *Term {
		i, ok := v.(Iface)
		if !ok || i.T != constIntModelType {
			unsupported("go/constant operation on a value that is not a modelled integer constant")
		}
		return i.V.(*Term)
	}
	two63, two64 := "9223372036854775808", "18446744073709551616"
	m["go/constant.Int64Val"] = func(c *CallCtx) {
		z := constInt(c.args[0])
		exact := &Term{Sort: BoolSort, S: fmt.Sprintf("(and (<= (- %s) %s) (< %s %s))", two63, z.S, z.S, two63), size: 4}
		c.Return(Tuple{app(BVSort(64), "(_ int2bv 64)", z), exact})
	}
	m["go/constant.Uint64Val"] = func(c *CallCtx) {
		z := constInt(c.args[0])
		exact := &Term{Sort: BoolSort, S: fmt.Sprintf("(and (<= 0 %s) (< %s %s))", z.S, z.S, two64), size: 4}
		c.Return(Tuple{app(BVSort(64), "(_ int2bv 64)", z), exact})
	}
	m["go/constant.Float64Val"] = func(c *CallCtx) {
		z := constInt(c.args[0])
		c.Return(Tuple{c.ex.constToFloat(c.st, z, 64), c.ex.fresh(BoolSort, "exact")})
	}
	m["go/constant.Sign"] = func(c *CallCtx) {
		z := constInt(c.args[0])
		neg := &Term{Sort: BoolSort, S: fmt.Sprintf("(< %s 0)", z.S), size: 2}
		zero := &Term{Sort: BoolSort, S: fmt.Sprintf("(= %s 0)", z.S), size: 2}
		c.Return(Ite(neg, BVC(64, ^uint64(0)), Ite(zero, BVC(64, 0), BVC(64, 1))))
	}
	// formatting of constants only feeds error messages
	m["invoke:go/constant.Value.ExactString"] = func(c *CallCtx) { c.Return(StrC("<constant>")) }
	m["invoke:go/constant.Value.String"] = func(c *CallCtx) { c.Return(StrC("<constant>")) }
	m["invoke:go/constant.Value.Kind"] = func(c *CallCtx) { c.Return(BVC(64, uint64(constKindOf(c.args[0])))) }
	// BinaryOp on two integer constants: exact integer arithmetic; x / y (token.QUO) is an exact quotient of kind
	// Float (go/constant keeps it as a fraction), x /= y (token.QUO_ASSIGN) is Go's truncated integer division;
	// bitwise operators through 192-bit two's complement (exact for |operand| < 2^190; vhConstInt gives |c| < 2^130)
	m["go/constant.BinaryOp"] = func(c *CallCtx) {
		x, y := constInt(c.args[0]), constInt(c.args[2])
		opT := c.args[1].(*Term)
		if !opT.Const {
			unsupported("go/constant.BinaryOp with a symbolic operator")
		}
		ret := func(z *Term) { c.Return(Iface{T: constIntModelType, V: c.ex.nameTerm(c.st, z, "cz")}) }
		iapp := func(op string, a ...*Term) *Term { return app(IntSort, op, a...) }
		abs := func(a *Term) *Term { return iapp("abs", a) }
		zero := IntC(0)
		neg := func(a *Term) *Term { return app(BoolSort, "<", a, zero) }
		bits := func(op string, notY bool) {
			bx, by := app(BVSort(192), "(_ int2bv 192)", x), app(BVSort(192), "(_ int2bv 192)", y)
			if notY {
				by = app(BVSort(192), "bvnot", by)
			}
			ret(sbv2int(app(BVSort(192), op, bx, by)))
		}
		switch token.Token(opT.U) {
		case token.ADD:
			ret(iapp("+", x, y))
		case token.SUB:
			ret(iapp("-", x, y))
		case token.MUL:
			ret(iapp("*", x, y))
		case token.QUO, token.QUO_ASSIGN, token.REM:
			if !c.ex.guard(c.st, Not(app(BoolSort, "=", y, zero)), "division by zero") {
				return
			}
			if token.Token(opT.U) == token.QUO {
				c.Return(Iface{T: constRatModelType, V: Tuple{x, y}})
				return
			}
			q := iapp("div", abs(x), abs(y))
			q = Ite(app(BoolSort, "=", neg(x), neg(y)), q, iapp("-", q))
			if token.Token(opT.U) == token.QUO_ASSIGN {
				ret(q)
			} else {
				ret(iapp("-", x, iapp("*", q, y)))
			}
		case token.AND:
			bits("bvand", false)
		case token.OR:
			bits("bvor", false)
		case token.XOR:
			bits("bvxor", false)
		case token.AND_NOT:
			bits("bvand", true)
		default:
			unsupported("go/constant.BinaryOp operator %v", token.Token(opT.U))
		}
	}
	m["go/constant.Compare"] = func(c *CallCtx) {
		x, y := constInt(c.args[0]), constInt(c.args[2])
		opT := c.args[1].(*Term)
		if !opT.Const {
			unsupported("go/constant.Compare with a symbolic operator")
		}
		switch token.Token(opT.U) {
		case token.EQL:
			c.Return(app(BoolSort, "=", x, y))
		case token.NEQ:
			c.Return(Not(app(BoolSort, "=", x, y)))
		case token.LSS:
			c.Return(app(BoolSort, "<", x, y))
		case token.LEQ:
			c.Return(app(BoolSort, "<=", x, y))
		case token.GTR:
			c.Return(app(BoolSort, ">", x, y))
		case token.GEQ:
			c.Return(app(BoolSort, ">=", x, y))
		default:
			unsupported("go/constant.Compare operator %v", token.Token(opT.U))
		}
	}
	// Shift of an integer constant: an uninterpreted function of (x, count) per direction. The harness' oracle is
	// go/constant.Shift itself, so only congruence is needed (which value is shifted, by how much, in which direction).
	m["go/constant.Shift"] = func(c *CallCtx) {
		x := constInt(c.args[0])
		opT := c.args[1].(*Term)
		if !opT.Const {
			unsupported("go/constant.Shift with a symbolic operator")
		}
		name := "const_shl"
		switch token.Token(opT.U) {
		case token.SHL:
		case token.SHR:
			name = "const_shr"
		default:
			c.Panic(Iface{T: runtimeErrorType, V: StrC("invalid shift")})
			return
		}
		c.ex.declareUF(name, []Sort{IntSort, BVSort(64)}, IntSort)
		c.Return(Iface{T: constIntModelType, V: app(IntSort, name, x, c.args[2].(*Term))})
	}
	m["go/constant.MakeInt64"] = func(c *CallCtx) {
		c.Return(Iface{T: constIntModelType, V: sbv2int(c.args[0].(*Term))})
	}
	m["go/constant.MakeUint64"] = func(c *CallCtx) {
		c.Return(Iface{T: constIntModelType, V: app(IntSort, "bv2nat", c.args[0].(*Term))})
	}
	m["go/constant.MakeBool"] = func(c *CallCtx) { c.Return(Iface{T: constBoolModelType, V: c.args[0]}) }
	m["go/constant.BoolVal"] = func(c *CallCtx) {
		i, ok := c.args[0].(Iface)
		if !ok || i.T != constBoolModelType {
			unsupported("go/constant.BoolVal on a value that is not a modelled boolean constant")
		}
		c.Return(i.V)
	}
	m["math.Float64bits"] = func(c *CallCtx) { c.Return(FPToBits(c.args[0].(*Term))) }
	m["math.Float32bits"] = func(c *CallCtx) { c.Return(FPToBits(c.args[0].(*Term))) }
	m["math.Float64frombits"] = func(c *CallCtx) { c.Return(FPFromBits(c.args[0].(*Term))) }
	m["math.Float32frombits"] = func(c *CallCtx) { c.Return(FPFromBits(c.args[0].(*Term))) }
	m["math.IsNaN"] = func(c *CallCtx) { c.Return(FPIsNaN(c.args[0].(*Term))) }
	m["runtime.Gosched"] = noop
	// single-threaded execution: locks are no-ops
	for _, n := range []string{"(*sync.Mutex).Lock", "(*sync.Mutex).Unlock", "(*sync.RWMutex).Lock", "(*sync.RWMutex).Unlock", "(*sync.RWMutex).RLock", "(*sync.RWMutex).RUnlock"} {
		m[n] = noop
	}
	// sync/atomic on one thread: plain loads and stores (thread mode is not used by these checks)
	atomicLoad := func(c *CallCtx) { c.Return(c.ex.load(c.st, c.args[0].(Ptr))) }
	m["sync/atomic.LoadUint32"] = atomicLoad
	m["sync/atomic.LoadInt32"] = atomicLoad
	m["sync/atomic.LoadUint64"] = atomicLoad
	m["sync/atomic.LoadInt64"] = atomicLoad
	m["sync/atomic.LoadPointer"] = atomicLoad
	atomicStore := func(c *CallCtx) { c.ex.store(c.st, c.args[0].(Ptr), c.args[1]); c.Return(nil) }
	m["sync/atomic.StorePointer"] = atomicStore
	m["sync/atomic.StoreInt32"] = atomicStore
	cas := func(c *CallCtx) {
		p := c.args[0].(Ptr)
		old := c.ex.load(c.st, p).(*Term)
		eq := Eq(old, c.args[1].(*Term))
		c.ex.store(c.st, p, Ite(eq, c.args[2].(*Term), old))
		c.Return(eq)
	}
	m["sync/atomic.CompareAndSwapInt32"] = cas
	m["sync/atomic.CompareAndSwapUint32"] = cas
	m["sync/atomic.StoreUint32"] = atomicStore
	// Comp.TypeOf(v): the universe's type object for v's dynamic type (xreflect internals not encoded)
	typeOfDyn := func(c *CallCtx) {
		i, ok := c.args[len(c.args)-1].(Iface)
		if !ok {
			unsupported("TypeOf(%T)", c.args[len(c.args)-1])
		}
		c.Return(XType{T: i.T})
	}
	m["(*github.com/cosmos72/gomacro/fast.Comp).TypeOf"] = typeOfDyn
	m["(*github.com/cosmos72/gomacro/xreflect.Universe).TypeOf"] = typeOfDyn
	return m
}
