#!/bin/bash
# usage: runall.sh [tier]  -- runs every claimed check in sequence, prints one summary line per property
tier=${1:-quick}
cd /verif
for id in $(python3 -c "import json;print(' '.join(c['property_id'] for c in json.load(open('MANIFEST.json'))['checks']))"); do
  bin/gosym check $id --tier $tier > /tmp/runall_$id.log 2>&1; rc=$?
  echo "$id exit=$rc $(grep '^property=' /tmp/runall_$id.log | cut -c1-160)"
  grep "^VIOLATION\|^KNOWN-FINDING" /tmp/runall_$id.log | cut -c1-160 | head -3
done
