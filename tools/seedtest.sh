#!/bin/bash
# usage: seedtest.sh <patch.diff> <property-id> [tier]   -- applies a seeded change to /repo, runs the check, restores /repo
set -u
patch=$1; id=$2; tier=${3:-quick}
cd /repo || exit 2
if ! git diff --quiet -- . ':!doc'; then echo "repo not clean"; exit 2; fi
git apply "$patch" || { echo "patch does not apply"; exit 2; }
/verif/bin/gosym check "$id" --tier "$tier" > /tmp/seedtest_$id.log 2>&1
rc=$?
git checkout -- . 
grep "^property=\|^VIOLATION\|^KNOWN" /tmp/seedtest_$id.log | cut -c1-200 | head -8
echo "exit=$rc"
