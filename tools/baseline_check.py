#!/usr/bin/env python3
# runs the repository's own test suite (hooks off: there are none) and checks that every test of the pinned
# baseline (/root/.vp/BASELINE.json stable_pass) still passes
import json,subprocess,os,sys
base=json.load(open('/root/.vp/BASELINE.json'))
want=set(base['stable_pass'])
env=dict(os.environ,GOFLAGS='-mod=mod',GOPROXY='off',GOSUMDB='off',GOTOOLCHAIN='local')
p=subprocess.run(['go','test','-json','-vet=off','-count=1','-timeout','25m','./...'],cwd='/repo',env=env,capture_output=True,text=True)
passed=set()
for line in p.stdout.splitlines():
    try: ev=json.loads(line)
    except Exception: continue
    if ev.get('Action')=='pass' and ev.get('Test'):
        passed.add(ev['Package']+'::'+ev['Test'])
missing=sorted(want-passed)
print('baseline tests:',len(want),'passing now:',len(want&passed),'missing:',len(missing))
for m in missing[:20]: print('  MISSING',m)
sys.exit(1 if missing else 0)
