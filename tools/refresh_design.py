#!/usr/bin/env python3
# refreshes the generated parts of DESIGN.md from MANIFEST.json, evidence/, known_findings.json and seeded/:
# the per-property blocks of section 5, the table of section 6, the defect table of section 9, the seeds table of section 10
import json,os,re
p='/verif/DESIGN.md'
s=open(p).read()
M=json.load(open('/verif/MANIFEST.json'))
K=json.load(open('/verif/known_findings.json'))
out=[]
for c in M['checks']:
    pid=c['property_id']
    out.append('### %s\n'%pid)
    out.append('*Claim.* '+c['level_claimed']['text']+'\n')
    out.append('*Bounds, stubs, outside the claim.* '+c['level_note']+'\n')
    try:
        e=json.load(open('/verif/evidence/%s.json'%pid)); cov=e['coverage']
        out.append('*Last %s run.* %s harnesses, %s obligations, %s discharged, %.0f s wall.\n'%(e.get('tier','quick'),len(cov.get('harnesses',[])),cov.get('obligations'),cov.get('discharged'),e.get('wall_s') or 0))
    except Exception: pass
    kf=[k for k in K if k['property']==pid]
    if kf:
        out.append('*Defects found by this check.* '+'; '.join(('%s (%s)'%(re.sub(r'^fixed: property=\S+ \S+ ','',k['what']), 'fixed '+k.get('commit','') if k['status']=='fixed' else 'KNOWN FINDING')) for k in kf)+'\n')
a=s.index('### C01\n'); b=s.index('\n---------------------------------------------------------------------------------------------\n\n## 6. Not applicable')
s=s[:a]+'\n'.join(out)+s[b:]
a=s.index('| id | reason |'); b=s.index('\n---------------------------------------------------------------------------------------------\n\n## 7.')
rows=['| id | reason |','|---|---|']+['| %s | %s |'%(n['property_id'],n['reason']) for n in M['not_applicable']]
s=s[:a]+'\n'.join(rows)+'\n'+s[b:]
a=s.index('| property | status | commit | what failed |'); b=s.index('\nNot in the table (same defect classes')
rows=['| property | status | commit | what failed |','|---|---|---|---|']
for k in K:
    what=re.sub(r'^fixed: property=\S+ \S+ ','',k['what']) if k['status']=='fixed' else k['what']
    rows.append('| %s | %s | %s | %s |'%(k['property'],k['status'],k.get('commit','-'),what.replace('|','\\|')))
s=s[:a]+'\n'.join(rows)+'\n'+s[b:]
a=s.index('| seed | change | needs | result |'); b=s.index('\nNot caught, by design of the claim')
rows=['| seed | change | needs | result |','|---|---|---|---|']
cnt={'c':0,'m':0,'n':0}
for d in sorted(os.listdir('/verif/seeded')):
    m=json.load(open('/verif/seeded/%s/meta.json'%d))
    r=m['check_result']
    cnt['n' if r.startswith('NOT') else 'm' if r.startswith('missed') else 'c']+=1
    rows.append('| %s | %s | %s | %s |'%(d,m['change'].replace('|','\\|'),m['needs_to_manifest'].replace('|','\\|'),r.replace('|','\\|')))
s=s[:a]+'\n'.join(rows)+s[b:]
s=re.sub(r'\d+ confirmed\nseeds; \d+ caught by the check as first built, \d+ missed at first','%d confirmed\nseeds; %d caught by the check as first built, %d missed at first'%(sum(cnt.values()),cnt['c'],cnt['m']),s)
s=re.sub(r'missing coverage is named in the table\), \d+ not caught','missing coverage is named in the table), %d not caught'%cnt['n'],s)
nfix=len([k for k in K if k['status']=='fixed']); nknown=len([k for k in K if k['status']=='known'])
claimed=len(M['checks']); na=len(M['not_applicable'])
s=re.sub(r'\d+ of the 39 properties are claimed, \d+ are not applicable','%d of the 39 properties are claimed, %d are not applicable'%(claimed,na),s)
open(p,'w').write(s)
print('claimed',claimed,'na',na,'fixed entries',nfix,'known',nknown,'seeds',cnt)
