#!/bin/bash
# usage: confirm_seed.sh <worktree> <n> <demo destination relative to worktree> <property> [number under /verif/seeded, default: first free]
# confirms: builds, suite result identical to the clean baseline, demo fails with the patch and passes without; then stores it in /verif/seeded
set -u
export GOFLAGS=-mod=mod GOPROXY=off GOSUMDB=off GOTOOLCHAIN=local
wt=$1; n=$2; dest=$3; prop=$4
k=${5:-}
if [ -z "$k" ]; then k=1; while [ -e /verif/seeded/${prop}_$k ]; do k=$((k+1)); done; fi
out=$wt/out/$n
cd $wt || exit 2
git checkout -q -- . ; rm -f $dest
suite() { go test -vet=off -count=1 ./... 2>&1 | grep -v "no test files" | sed -E 's/\t[0-9.]+s$//; s/\(cached\)//; s/ \([0-9.]+s\)//' | grep "^ok\|^FAIL\|^---" | sort; }
if [ ! -f $wt/out/baseline.txt ]; then suite > $wt/out/baseline.txt; fi
cp $out/demo_test.go $dest
go test -vet=off -count=1 ./$(dirname $dest)/ -run 'Demo|Seed' > $out/demo_clean.log 2>&1; clean=$?
rm -f $dest
git apply $out/patch.diff || { echo "PATCH FAILS TO APPLY"; exit 2; }
go build ./... > $out/build.log 2>&1; b=$?
suite > $out/suite_patched.txt
cp $out/demo_test.go $dest
go test -vet=off -count=1 ./$(dirname $dest)/ -run 'Demo|Seed' > $out/demo_patched.log 2>&1; patched=$?
rm -f $dest; git checkout -q -- .
same=no; diff -q $wt/out/baseline.txt $out/suite_patched.txt >/dev/null && same=yes
echo "seed $prop/$n: build=$b suite_same_as_baseline=$same demo_clean_exit=$clean demo_patched_exit=$patched"
if [ $b = 0 ] && [ $same = yes ] && [ $clean = 0 ] && [ $patched != 0 ]; then
  d=/verif/seeded/${prop}_$k; mkdir -p $d; echo "stored as $d"
  cp $out/patch.diff $out/demo_test.go $d/; cp $out/notes.txt $d/notes.txt 2>/dev/null
  echo CONFIRMED > $d/confirmed.txt
  echo "demo destination: $dest" >> $d/confirmed.txt
  echo "ran: go build ./... ; go test -vet=off -count=1 ./... (same ok/FAIL lines as clean baseline); demo clean exit $clean, patched exit $patched" >> $d/confirmed.txt
fi
