#!/usr/bin/env python3
# writes seeded/<id>/meta.json from the table below (what each seeded change breaks, what it needs, what was run, which check catches it)
import json,os
T = {
 "C01_1": ("C01","fast/identifier.go Symbol.intExpr case upn==2/Int16 reads env.Outer.Ints instead of env.Outer.Outer.Ints","an int16 variable read exactly two frames up","caught: quick, VH_C01_SymInt_int16"),
 "C01_2": ("C01","fast/binary_ops.go mulPow2 uint32 case 8: x<<2 instead of x<<8","a non-constant uint32 multiplied by the constant 256","caught: quick, VH_C01_Mul_uint32_cvPp / vcPp"),
 "C01_3": ("C01","fast/binary_relops.go Leq constant-left float64: < instead of <=","constant <= float64 expression with equal operands","caught: quick, VH_C01_Leq_float64_cv"),
 "C02_1": ("C02","fast/var_ops.go varQuoPow2 int32 upn==2 negative divisor: -n>>shift instead of -(n>>shift)","x /= -(2^k) on an int32 variable captured exactly two closures up","caught: quick, VH_C02_VarQuo_int32_I_cPn (+cN, cPp share the path)"),
 "C02_2": ("C02","fast/place_ops.go placeXorExpr map/uint16: key function called a second time for the store","m[k] ^= e on map[..]uint16 with a key expression that has side effects","caught: quick, VH_C02_PlaceXor_uint16_M_v (key evaluated exactly once)"),
 "C02_3": ("C02","fast/var_set_value.go IntBind upn==1 uint32: stores through *uint16","a, b = b, a (multi-assignment) to a uint32 variable one frame up, value >= 65536","missed at first (varSetValue not covered); caught after adding c02_setvalue_gen.go: VH_C02_VarSetValue_uint32_I"),
 "C34_1": ("C34","xreflect/cti_basic_method.go uint32.Sub returns b-a","uint32 Sub with a != b","caught: quick, VH_C34_Uint32_Sub"),
 "C34_2": ("C34","xreflect/cti_basic_method.go int16.Rsh shifts unsigned","int16 Rsh of a negative value by >= 1","caught: quick, VH_C34_Int16_Rsh"),
 "C34_3": ("C34","xreflect/cti_method.go container Cap wired to ctiLen","slice/chan Cap() when cap != len","NOT caught: container methods (cti_method.go, reflect-based) are outside the C34 claim (level_note)"),
 "C37_1": ("C37","fast/cmd.go removeCmd copies one element too few when shifting the head","delete a command with fewer predecessors than successors in a bucket of >= 4","caught: quick, VH_C37_removeCmd4/5"),
 "C37_2": ("C37","fast/cmd.go prefixSearch candidate scan stops at n-1","ambiguous prefix whose last candidate is last in its bucket","caught: quick, VH_C37_prefixSearch2"),
 "C37_3": ("C37","fast/cmd.go Cmds.Add skips the re-sort unless name < first element","add a command sorting between existing ones in a bucket of >= 2","caught: quick, VH_C37_addStep2"),
 "C14_1": ("C14","fast/declaration.go CompBinds.NewBind slot-reuse test has old/new kinds swapped","a one-slot global redefined as complex128 after another global was declared","caught: quick, VH_C14_newBind_redefine"),
 "C14_2": ("C14","fast/address.go Var.Address upn==2/float64 sets IntAddressTaken before walking to the owning frame","&x of a float64 global taken two frames below the global frame, then > 1024 later declarations","missed at first (address.go not covered); caught after adding c14_address_gen.go: VH_C14_Address_float64_I"),
 "C14_3": ("C14","fast/global.go BindClass narrowed to uint16 (descriptor index truncated)","more than 8191 globals of one storage class","caught: quick, VH_C14_descriptor + newBind_*"),
 "C19_1": ("C19","fast/debug.go singleStep: CallDepth <= DebugDepth instead of <","next with a callee exactly one level deeper; finish at the same depth","caught: quick, VH_C19_singleStep_on, VH_C19_stopRule"),
 "C19_2": ("C19","fast/compile.go freeEnv4Func: run.CurrEnv = env.Outer instead of env.Caller","second and later calls from the same frame get a wrong call depth","missed by the first C19 check; caught by C06 (VH_C06_free) and, after sharing the harness, by VH_C19_callDepth_onReturn"),
 "C19_3": ("C19","fast/debug/cmd.go cmdFinish: CallDepth-1","finish issued at depth >= 2","caught: quick, VH_C19_commands, VH_C19_lookup"),
 "C13_1": ("C13","fast/code.go exec(): endless loop polls only Signals.Sync","interrupt after the first 70 statements of a plain function body without calls","caught: quick, VH_C13_interrupt_plainLoop"),
 "C13_2": ("C13","fast/code.go reExecWithFlags first phase: SigDefer handling wipes Signals.Async","interrupt arriving <= 13 statements before a defer statement in the first 70 statements","missed at first; caught after adding VH_C13_interrupt_beforeDefer"),
 "C13_3": ("C13","fast/code.go reExecWithFlags single-step loop loses its Async branch","interrupt while the debugger steps over a loop without interpreted calls","missed at first; caught after adding VH_C13_interrupt_whileSteppingOver"),
 "C07_1": ("C07","fast/code.go pushDefer records DeferOfFun only when panicking","recover() in a deferred function of a non-panicking function called from a deferred function of a panicking one","missed at first; caught after adding VH_C07_recoverInDeferOfCalledFunction"),
 "C07_2": ("C07","fast/code.go popDefer no longer clears EFStartDefer","a deferred call to a compiled function followed by a helper that calls recover()","missed at first (harness was under C12 only); caught by VH_C07_compiledDeferredCall, VH_C07_pushPopDefer"),
 "C12_3": ("C12","fast/code.go rundefer calls maybeRepanic unconditionally","a function with a defer returning normally in an evaluation after one aborted by a panic","missed at first; caught after adding probe 0 to VH_C12_abortedByPanic"),
 "C12_4": ("C12","fast/repl.go RunExpr restores CurrEnv without defer","an Eval aborted by a panic leaves Run.CurrEnv pointing at dead frames","missed at first; caught after adding VH_C12_runExprAborted"),
 "C27_1": ("C27","fast/repl.go Interp.Read: comment-only chunk counted as one line","a multi-line block comment alone in a chunk, then an error in a later chunk","caught: quick, VH_C27_replCommentOnly (+replEOF path)"),
 "C27_2": ("C27","fast/repl.go ParseEvalPrint: afterEval deferred after Cmd(), so consumed command/package chunks are not counted","a package clause or :command line before the error","missed at first (Cmd model was the identity); caught after adding VH_C27_replCommandChunk"),
 "C27_3": ("C27","go/etoken/fileset.go File.Source indexes with pos.Line instead of pos.Line - f.line","Source() on a file added with a non-zero starting line","caught: quick, VH_C27_fileOffset"),
 "C28_1": ("C28","go/typeutil/predicates.go Chan case: direction matches when x is bidirectional","chan types with a bidirectional left operand","caught: quick, VH_C28_pair_chan"),
 "C28_2": ("C28","go/typeutil/map.go hashFor Struct adds the field's package path","structs whose exported fields belong to different packages","missed at first (fields had no package); caught after adding package/exported-name variation: VH_C28_pair_struct"),
 "C28_3": ("C28","go/typeutil/map.go Map.Set stops scanning at the first tombstone","two non-identical keys in one bucket, delete the earlier, set the later again","missed at first (no delete-then-set sequences); caught after extending the map harness: VH_C28_map_array"),
 "C05_1": ("C05","fast/switch2.go switchGotoSlice int16: range guard replaced by idx < len(slice)","dense int16 switch, tag below the smallest case","caught: quick, VH_C05_switchGoto_int16"),
 "C05_2": ("C05","fast/statement.go jumpOut default branch loops one frame too far","break/continue/goto leaving >= 3 nested blocks with locals","missed at first; caught after adding VH_C05_jumpOut"),
 "C05_3": ("C05","fast/statement.go Comp.If: else-branch truncation condition inverted","if with a constant condition and an else branch","caught: quick, VH_C05_if"),
 "C06_1": ("C06","fast/compile.go MarkUsedByClosure stops at the first function-body frame without marking it","closure created in a nested block, used after the creating call returned","missed at first (chain frames had no Caller); caught after making Caller symbolic: VH_C06_markUsedByClosure"),
 "C06_2": ("C06","fast/address.go Var.Address upn==2/int32 marks the intermediate frame","&x of an int32 two blocks below the function body, then frame reuse","caught: quick, VH_C06_Address_int32_I"),
 "C06_3": ("C06","fast/compile.go freeEnv keeps the slot array of the frame stored in the last pool slot","exactly 31 frames pooled when a frame with an escaped slot address is freed","caught: quick, VH_C06_free (pool size cap-1)"),
 "C26_1": ("C26","base/read.go: after an escaped backslash the reader stays in string-escape mode","a string literal ending in an escaped backslash, e.g. \"C:\\\\\"","caught: quick, VH_C26_step1 (string escape prefix)"),
 "C26_2": ("C26","base/read.go: '^' dropped from the operators that continue a statement","a line ending in binary ^ or &^","caught: quick, VH_C26_step1_p16"),
 "C26_3": ("C26","base/read.go: '/*' enters comment-star mode","block comments starting with /*/ and the empty comment /**/","caught: quick, VH_C26_step1_p20 and others"),
 "C04_1": ("C04","fast/binary.go BinaryExprUntyped: xint computed from y.Kind","an untyped rune on the left of a non-rune untyped constant; rune division","NOT caught: untyped binary operations are outside the C04 claim (level_note)"),
 "C04_2": ("C04","base/untyped/lit.go extractNumber: inexact check compares with Uintptr instead of Uint","negative or > 64-bit constant converted to a 64-bit unsigned type","caught: quick, VH_C04_untypedInt_to_uint*"),
 "C04_3": ("C04","base/untyped/lit.go Lit.BigInt uses SetInt64 for values in [2^63, 2^64)","constant in [2^63, 2^64) converted to *big.Int","NOT caught: math/big conversions are outside the C04 claim (level_note)"),
}
for k,(prop,what,needs,res) in T.items():
    d='/verif/seeded/'+k
    if not os.path.isdir(d): continue
    conf=open(d+'/confirmed.txt').read() if os.path.exists(d+'/confirmed.txt') else ''
    json.dump({"property":prop,"change":what,"needs_to_manifest":needs,"confirmed":conf.strip(),"check_result":res,
               "ran":"tools/confirm_seed.sh (build, full suite identical to clean baseline, demo fails with patch / passes without) and tools/seedtest.sh <patch> "+prop},open(d+'/meta.json','w'),indent=1)
print("ok")
