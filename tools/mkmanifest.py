#!/usr/bin/env python3
# Regenerates /verif/MANIFEST.json from the table below (kept in one place so it stays schema-valid).
import json
TECH = "symbolic execution of go/ssa (real code) to SMT-LIB2; z3 decides every assertion for all inputs within the stated bounds; counterexamples replayed natively"
CHECKS = {
 "C01": ("every closure returned by the real Comp.BinaryExpr1 / Unary* / Comp.Symbol compile functions, per (operator, operand kind, constness shape, closure depth, storage class), is executed symbolically from go/ssa and proved equal to the native Go operator for all operand values at full width (IEEE floats, wrap-around ints), including static result kind and panic equivalence (division by zero, negative shift count); power-of-two strength reductions are checked for every exponent. The step from per-closure equivalence to whole expressions is compositional and assumed.",
         "trusted: go/ssa, z3 4.8.12 (+z3 5.1.0/cvc5 fallback), gosym encoder, reflect typed-cell model; operands already of the same type (toSameFuncType executed on same-typed operands); typed constants finite and not -0; frame invariant FileEnv = Outer^(Depth-1); complex division uninterpreted; strings <= 3 bytes", "DESIGN.md §5 C01"),
 "C02": ("every statement closure returned by the real Comp.setVar / Comp.setPlace (and the var*/place* families they dispatch to: =, +=, -=, *=, /=, %=, &=, |=, ^=, &^=; power-of-two strength reductions) is executed symbolically per (operator, kind, storage class Ints/Vals resp. pointer/map place, constant or expression right-hand side, closure depth 0..5 with the file-frame shortcut) on a chain of symbolic frames and proved to store old OP y with Go wrap-around / IEEE semantics for all values, to leave every other slot, frame, cell and map entry unchanged, to advance IP by one and return the next statement, to evaluate place, key and right-hand side exactly once in Go's order, to panic exactly when Go panics (integer division by zero, nil map) and to be rejected at compile time exactly for integer division by constant zero.",
         "trusted: go/ssa, z3 4.8.12 (+z3 5.1.0/cvc5 fallback), gosym encoder, reflect typed-cell and map model; narrowing rewrites proved by `gosym lemmas` (division narrowing from 8-bit operands only), float32 double rounding for a single + - * / (Figueroa) trusted; bounds: 3 slots per frame, depth <= 5, maps with <= 2 entries; complex division uninterpreted; shifts on places (<<= >>=) are not implemented by gomacro and not claimed; multi-assignment and IncDec not yet covered", "DESIGN.md §5 C02"),
 "C14": ("the real BindClass.MakeDescriptor / BindDescriptor.Index / Class (class and index round-trip for every index in [-1, 2^59)), Comp.NewBind + CompBinds.NewBind (fresh and redefined names, 7 kinds, arbitrary counters satisfying the slot invariant IntBindMax != 0 => IntBindNum <= IntBindMax) and Interp.prepareEnv (arbitrary small global frame, arbitrary growth deltas) are executed symbolically as single inductive steps: slot allocation (2 slots for complex128), frozen capacity honoured, slot invariant preserved, existing slots keep their values, new slots are zero, the slot array is never reallocated once an address escaped, pending signals cleared; plus the two-evaluation history 'address taken, then one more declaration, then growth'.",
         "bounds: prepareEnv on frames with <= 3 integer slots / cap <= 3, <= 1 boxed slot, counters <= 6/3, deltas in [-1,8] (the production deltas 16/1024 are call arguments); counters < 2^40 in the NewBind steps; trusted: go/ssa, z3, encoder, map model; known finding listed in known_findings.json (capacity frozen one evaluation late); the evaluation pipeline itself (that each evaluation calls prepareEnv before running, that address-taking sets IntAddressTaken) is covered by C06/C01 obligations or outside the claim", "DESIGN.md §5 C14"),
 "C19": ("the real singleStep, Interp.debug and Run.applyDebugOp (package fast) and Debugger.cmdStep / cmdNext / cmdFinish / cmdContinue and Cmds.Lookup (package fast/debug) are executed symbolically with symbolic call depths in [0, 2^61): after step the debugger is consulted before the next statement at any depth, after next exactly at depths <= the current one, after finish exactly at depths < the current one, after continue never; a non-positive stop depth is normalised to continue; exactly one statement runs per single step and control returns to the executor while the debug signal is set; an op carrying a panic value terminates execution with it.",
         "the debugger is a counting stub returning an arbitrary op; trusted: go/ssa, z3, encoder; transparency of results under the debugger (first sentence of the property) and breakpoints in whole programs are outside the claim", "DESIGN.md §5 C19"),
 "C34": ("the real Universe.addBasicTypeMethodsCTI is executed symbolically for each of the 217 (basic kind, contract method) pairs; the installed func value's signature is checked and its result proved equal to the Go operator/builtin for all operand values, including panic equivalence for integer division and string indexing/slicing.",
         "trusted: go/ssa, z3, encoder, reflect typed-cell model; method-table accessors of xtype (NumMethod/Method/GetMethods) replaced by a one-method model; container-type methods (cti_method.go) outside the claim", "DESIGN.md §5 C34"),
 "C37": ("the real binarySearch, prefixSearch, removeCmd, Cmd.Match, Cmds.Add, Cmds.Del and Cmds.Lookup are executed symbolically on command names that are symbolic byte strings (bounded bit-vector strings) and compared with a linear-scan reference: exact name wins, unique prefix resolves, ambiguity lists exactly the candidates in order, no match is io.EOF; Add/Del are checked as one inductive step from an arbitrary sorted duplicate-free bucket (invariant preserved, other commands still resolve) and as short histories through the public API.",
         "bounds: names <= 3 bytes (histories: <= 2 bytes), bucket size <= 3 (thorough: <= 4/5), quick tier alphabet 'a'..'c', thorough tier adds all 256 byte values; sort.Slice replaced by an insertion-sort model (trusted: returns the sorted permutation); Interp.Cmd dispatch (trim, fall-through to evaluation) outside the claim", "DESIGN.md §5 C37"),
}
NA = {
 "C09": "field/method selection, method sets and type switches run on xreflect / go/types-fork / reflect object graphs with maps keyed by interfaces; there is no bounded scalar kernel and the go/ssa->SMT encoder cannot model these libraries (DESIGN.md section 6)",
 "C11": "the behaviour is that of reflect.MakeFunc, reflect.Call and compiled standard-library callers; none of it is gomacro code the encoder can execute symbolically",
 "C15": "the statement is about the whole parse->compile->execute pipeline over map[string]*Bind and type universes; the one local mechanism (deferred restore in DeclFunc) is too small a part to claim the property",
 "C16": "needs the dependency sorter plus the compiler on whole declaration sets; only the graph kernel is encodable (see C17)",
 "C20": "macro expansion is a recursive walk over arbitrary go/ast trees with reflective calls of user macros: input-sized and pointer-rich, outside what a hand-written SSA->SMT encoder reaches",
 "C21": "quasiquote builds go/ast trees through reflect and two interpreters; no scalar kernel to encode",
 "C23": "two ~1000-line scanners with input-length loops and Unicode tables; a differential encoding is out of reach beyond input lengths that enumeration already covers",
 "C24": "recursive-descent parser producing go/ast heaps; input-sized",
 "C25": "printer/parser round trip over whole files; input-sized formatting state machine with tabwriter",
 "C29": "agreement with reflect and go/types for constructed types is about those libraries' run-time behaviour, not gomacro code the encoder can execute",
 "C30": "the converter walks complete go/types package graphs loaded from export data",
 "C35": "the instantiation cache and alias scopes live in the compiler's maps/universe; the comparison target is a whole re-compilation",
 "C38": "the classic interpreter evaluates go/ast directly with reflect.Values; every step is reflection",
 "C39": "the output is a printed file compiled by the Go toolchain",
}
props=[json.loads(l) for l in open('/verif/properties.jsonl')]
checks=[]
for pid,(text,note,ref) in CHECKS.items():
    checks.append({"property_id":pid,"quick_cmd":f"/verif/bin/gosym check {pid} --tier quick","thorough_cmd":f"/verif/bin/gosym check {pid} --tier thorough",
      "evidence_file":f"/verif/evidence/{pid}.json","replay_cmd_template":"/verif/bin/gosym replay {path}","engine":"gosym",
      "level_claimed":{"category":"other","text":text,"design_ref":ref},"level_note":note,"technique":TECH})
na=[]
for p in props:
    if p['id'] not in CHECKS:
        na.append({"property_id":p['id'],"reason":NA.get(p['id'],"check not built yet in this session (work in progress; see DESIGN.md §5/§6 for the plan)")})
m={"version":1,
 "setup_cmd":"cd /verif/engine && GOFLAGS=-mod=mod GOPROXY=off GOSUMDB=off GOTOOLCHAIN=local go build -o /verif/bin/gosym .",
 "hooks":{"guard":"verif","enable":"no source hooks: harnesses are injected into /repo packages with go/packages Overlay and `go test -overlay`; nothing is written under /repo",
   "baseline_off_cmd":"cd /repo && go test -mod=mod -vet=off -count=1 -timeout 25m ./...","source_commits":[],"add_only":True},
 "engines":[{"name":"gosym","path":"/verif/engine","serves_properties":sorted(CHECKS),"kind_free_text":"symbolic executor for go/ssa (x/tools v0.29.0) emitting SMT-LIB2 to a persistent z3 4.8.12 (fallback z3 5.1.0, cvc5); harnesses are in-package Go functions with nondeterministic inputs; counterexamples are replayed natively with go test -overlay"}],
 "checks":checks,"not_applicable":na}
json.dump(m,open('/verif/MANIFEST.json','w'),indent=1)
print("checks:",len(checks),"n/a:",len(na))
